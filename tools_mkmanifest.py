import json,sys
sys.path.insert(0,'/verif')
from sim.props import PROPS
META=json.load(open('/verif/manifest_meta.json'))
props=[json.loads(l) for l in open('/verif/properties.jsonl')]
checks=[];na=[]
for p in props:
    i=p['id']
    if i in PROPS and i in META['checks']:
        m=META['checks'][i]
        checks.append({
          'property_id':i,
          'quick_cmd':f'./check {i} quick',
          'thorough_cmd':f'./check {i} thorough',
          'evidence_file':f'/verif/evidence/{i}.json',
          'replay_cmd_template':f'./check {i} --replay {{path}}',
          'engine':'sim',
          'level_claimed':{'category':'exploration','text':m['text'],'design_ref':m['design_ref']},
          'level_note':m['note'],
          'technique':m['technique']})
    else:
        na.append({'property_id':i,'reason':META['not_applicable'].get(i) or META['pending'].get(i,'check not built yet')})
man={'version':1,
 'setup_cmd':'./setup.sh',
 'hooks':{'guard':'MAL_TOOLBOX_VERIF','enable':'no hooks: every seam is a module-global injection done by /verif/sim (see DESIGN.md section 1); the guard variable is not read by /repo','baseline_off_cmd':'cd /repo && /venv/bin/python -m pytest -ra -q -p no:cacheprovider --timeout=900 --continue-on-collection-errors','source_commits':[],'add_only':True},
 'engines':[{'name':'sim','path':'/verif/sim','serves_properties':[c['property_id'] for c in checks],'kind_free_text':'deterministic simulation: seeded scheduler over client operations on shared mutable objects, restarts through real files on a scratch tmpfs, injected storage / peer faults, reference models as oracles, ddmin-minimised replay files'}],
 'checks':checks,
 'notes':META['notes'],
 'not_applicable':na}
json.dump(man,open('/verif/MANIFEST.json','w'),indent=1)
print(len(checks),'checks',len(na),'n/a')
