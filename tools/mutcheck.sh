#!/bin/bash
# Run checks against a scratch copy of /repo's working tree with a patch applied.
#   tools/mutcheck.sh --patch <file> | --revert <commit>   <Cxx> [tier] [extra check args]
# Prints the check's output; exit code = the check's exit code.  The scratch copy lives on
# tmpfs and is removed afterwards.
set -u
mode=$1; arg=$2; prop=$3; tier=${4:-quick}; shift 4 2>/dev/null || shift 3
tmp=/dev/shm/mtb-mut-$$
rm -rf "$tmp"; mkdir -p "$tmp"
trap 'rm -rf "$tmp"' EXIT
(cd /repo && tar --exclude='__pycache__' -cf - maltoolbox) | tar -xf - -C "$tmp"
if [ "$mode" = "--revert" ]; then
  git -C /repo show "$arg" -- maltoolbox | (cd "$tmp" && git apply -R --whitespace=nowarn -) || { echo "HARNESS-ERROR cannot revert $arg"; exit 2; }
elif [ "$mode" = "--patch" ]; then
  (cd "$tmp" && git apply --whitespace=nowarn "$arg") || { echo "HARNESS-ERROR cannot apply $arg"; exit 2; }
else
  echo "usage"; exit 2
fi
cd "$(dirname "$0")/.." || exit 2
VERIF_REPO="$tmp" ./check "$prop" "$tier" "$@"
