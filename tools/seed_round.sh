#!/bin/bash
# tools/seed_round.sh <Cxx> <outdir> <tag> [worktree]   e.g.  tools/seed_round.sh C05 /tmp/seed-out2 r2 /tmp/wt2-C05
# Confirms every <outdir>/<Cxx>/<k>/ and files it as /verif/seeded/<Cxx>-<tag>-<k>, removes the
# worktree, then runs the property's check against the newly filed changes.
cd "$(dirname "$0")/.." || exit 2
p=$1; out=$2; tag=$3; wt=$4
names=""
for d in "$out/$p"/*/; do
  k=$(basename "$d")
  [ -f "$d/patch.diff" ] || continue
  if /venv/bin/python tools/seed_verify.py "$d" --name "$p-$tag-$k" | tail -1 | grep -q confirmed; then
    names="$names,$p-$tag-$k"; echo "$p-$tag-$k confirmed"
  else
    echo "$p-$tag-$k REJECTED"; /venv/bin/python tools/seed_verify.py "$d" --name "$p-$tag-$k" | tail -3
  fi
done
[ -n "$wt" ] && git -C /repo worktree remove --force "$wt" 2>/dev/null; git -C /repo worktree prune
[ -n "$names" ] && /venv/bin/python tools/sensitivity.py --seeded --only "${names#,}" | grep -v WARNING
