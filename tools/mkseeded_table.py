#!/venv/bin/python
"""Render /verif/mutants/SEEDED.md: one row per independently seeded change."""
import glob
import json
import os

VERIF = os.path.dirname(os.path.dirname(os.path.abspath(__file__)))
res = json.load(open(os.path.join(VERIF, 'mutants', 'results.json')))
rows = []
for d in sorted(glob.glob(os.path.join(VERIF, 'seeded', '*'))):
    name = os.path.basename(d)
    m = json.load(open(os.path.join(d, 'meta.json')))
    r = res.get(name, {})
    caught = []
    quiet = []
    for ch in r.get('checks', []):
        if ch['violation']:
            cl = ''
            det = ch.get('detail') or ''
            if 'clause=' in det:
                cl = det.split('clause=')[1].split()[0]
            caught.append(f"{ch['prop']} ({cl})" if cl else ch['prop'])
        else:
            quiet.append(ch['prop'])
    if m.get('obsolete_since'):
        verdict = f"moot since repo fix {m['obsolete_since']}" + \
            (f" ({m['obsolete_reason']})" if m.get('obsolete_reason') else '')
    elif caught:
        verdict = 'caught by ' + ', '.join(caught) + (f"; quiet: {', '.join(quiet)}" if quiet else '')
    elif r:
        verdict = '**not caught**' + (f" ({m.get('not_caught_reason')})" if m.get('not_caught_reason') else '')
    else:
        verdict = '(not run)'
    rows.append((name, m['property'], (m.get('summary') or '').replace('|', '/').replace('\n', ' ')[:260],
                 (m.get('needs') or '').replace('|', '/').replace('\n', ' ')[:220], verdict))
with open(os.path.join(VERIF, 'mutants', 'SEEDED.md'), 'w') as f:
    f.write('| change | property | what was changed | needs, to manifest | quick tier |\n|---|---|---|---|---|\n')
    for r in rows:
        f.write('| ' + ' | '.join(r) + ' |\n')
n = len(rows)
c = sum(1 for r in rows if r[4].startswith('caught'))
print(f'{n} seeded changes, {c} caught, '
      f'{sum(1 for r in rows if r[4].startswith("moot"))} moot, '
      f'{sum(1 for r in rows if "not caught" in r[4])} not caught, '
      f'{sum(1 for r in rows if "not run" in r[4])} not run')
