#!/usr/bin/env python3
"""tools/mkprompts.py <outdir> <worktree-prefix> [Cxx ...]
Writes <outdir>/prompt-<Cxx>.txt for a further seeding round: the template
(tools/seed_prompt.tmpl: property text + worktree path only) plus one-line
summaries of everything already proposed for that property, so that the next
sub-agent looks elsewhere.  Nothing from /verif's checks goes into a prompt."""
import json
import os
import sys

VERIF = os.path.dirname(os.path.dirname(os.path.abspath(__file__)))
STEER_6 = ('{n} changes have already been proposed for this property by other developers (listed below). '
           'Do NOT repeat them or close variants (in particular: no more log-level / DEBUG side effects, no more '
           'caches keyed by path or name, no more __eq__/__hash__ rewrites). Look for what they have NOT touched: '
           'degenerate inputs (empty model, empty graph, an attacker without entry points, an association type '
           'that is never used, a language part that is empty), argument shapes a caller may legitimately use '
           '(tuple / set / generator / dict view instead of list, bool or numpy-like ints, keyword vs positional), '
           're-entrancy (the API called while the caller iterates over the very list it changes, e.g. '
           '`for n in graph.nodes: graph.remove_node(n)`), the same file path written twice or read while stale, '
           'paths with spaces / non-ASCII characters / upper-case extensions, objects that exist twice (two models '
           'on one factory, two graphs on one model, two factories on one language graph, an object moved from one '
           'container to another), boundary counts (exactly the maximum multiplicity, exactly one element, ids at 0 '
           'and -1), error paths that clean up only partly, and code that is correct for coreLang but not for '
           'languages with inheritance chains, abstract types, reflexive or same-named associations. Each of your '
           'three changes should need a different kind of trigger.')

STEER_7 = ('{n} changes have already been proposed for this property by other developers (listed below). '
           'Do NOT repeat them or close variants. This time look at: (1) functions and branches that NONE of the '
           'listed proposals touches - read the whole of the relevant modules first and list for yourself which '
           'functions the proposals cover; (2) getters that hand out internal lists / dicts (a caller that keeps or '
           'edits what it was given), and setters that keep a reference to what the caller passed in; (3) counters '
           'and off-by-one boundaries (next ids after explicit / negative / removed ids, maximum multiplicities, '
           'first and last element of a list); (4) state kept on classes or modules rather than on instances; '
           '(5) iteration over sets or dict views whose order the result then depends on; (6) two-step protocols '
           'where step one succeeds and step two is refused (what is left behind?); (7) operations applied to an '
           'object right after it was loaded from a file, copied or regenerated, where some field is still in its '
           'file / constructor form (string vs number, list vs tuple, None vs empty). Prefer changes that a '
           'reviewer would wave through. Each of your three changes should need a different kind of trigger.')

STEER = ('{n} changes have already been proposed for this property by other developers (listed below). '
         'Do NOT repeat them or close variants. Look for what they have NOT touched: other functions and '
         'code paths that the property depends on indirectly (helpers in other modules, constructors, '
         'properties and cached attributes, __eq__/__hash__/__deepcopy__/__repr__ of the data classes, '
         'default arguments, class-level vs instance-level attributes, module-level state and configuration '
         '(maltoolbox/__init__.py, default.conf, log levels), logging statements with side effects, '
         'generators consumed twice, dict/list views that change while being used, sort keys, '
         'integer/float/string conversions, file formats (.json vs .yml/.yaml, file extensions in upper case), '
         'names containing separators such as \':\' or \'.\', values that are falsy but valid, very large or '
         'negative ids), objects that went through a copy, a save/load or a regenerate before the operation, '
         'refused operations followed by a retry, and interactions between two features that are each fine '
         'alone. Each of your three changes should need a different kind of trigger.')


def main():
    out, wtp = sys.argv[1], sys.argv[2]
    props = {}
    for ln in open(os.path.join(VERIF, 'properties.jsonl')):
        d = json.loads(ln)
        props[d['id']] = d
    tmpl = open(os.path.join(VERIF, 'tools', 'seed_prompt.tmpl')).read()
    for pid in sys.argv[3:]:
        p = props[pid]
        prev = []
        sd = os.path.join(VERIF, 'seeded')
        for d in sorted(os.listdir(sd)):
            mp = os.path.join(sd, d, 'meta.json')
            if d.startswith(pid + '-') and os.path.exists(mp):
                prev.append(json.load(open(mp)).get('summary', '')[:220].replace('\n', ' '))
        text = (tmpl.replace('__WT__', f'{wtp}-{pid}').replace('__OUT__', f'{out}/{pid}')
                .replace('__ID__', pid).replace('__TITLE__', p['title'])
                .replace('__STATEMENT__', p['statement']).replace('__QUANT__', p['quantifier']['text'])
                .replace('__N__', '3'))
        text += '\n' + ({'6': STEER_6, '7': STEER_7}.get(os.environ.get('SEED_STEER'), STEER)).format(n=len(prev)) + '\n' + '\n'.join('- ' + x for x in prev) + '\n'
        os.makedirs(os.path.join(out, pid), exist_ok=True)
        with open(os.path.join(out, f'prompt-{pid}.txt'), 'w') as f:
            f.write(text)
        print(pid, len(prev), 'earlier proposals')


if __name__ == '__main__':
    main()
