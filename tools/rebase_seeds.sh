#!/bin/bash
# tools/rebase_seeds.sh : seeded patches whose context no longer matches /repo's working tree (after a
# later fix: commit) are re-applied with fuzz; the demo (0 unchanged / non-zero patched) and the 60 tests are
# re-confirmed; the original is kept as patch.orig.diff.  Patches that cannot be carried over are listed.
cd "$(dirname "$0")/.." || exit 2
sha=$(git -C /repo rev-parse --short HEAD)
for d in seeded/*/; do
  n=$(basename "$d")
  C=/dev/shm/rebase-chk; rm -rf $C; mkdir $C; cp -r /repo/maltoolbox $C/
  if (cd $C && git apply --check --whitespace=nowarn /verif/seeded/$n/patch.diff 2>/dev/null); then rm -rf $C; continue; fi
  rm -rf $C
  if python3 -c "import json,sys;sys.exit(0 if json.load(open('seeded/$n/meta.json')).get('obsolete_since') else 1)"; then echo "$n: obsolete, skipped"; continue; fi
  T=/dev/shm/rebase-$n; rm -rf $T; mkdir -p $T/a $T/b; cp -r /repo/maltoolbox $T/a/; cp -r /repo/maltoolbox $T/b/
  (cd $T/b && patch -p1 --fuzz=3 --no-backup-if-mismatch -s < /verif/seeded/$n/patch.diff >/dev/null 2>&1); rc=$?
  rej=$(find $T -name "*.rej" | wc -l); find $T -name "*.rej" -o -name "*.orig" | xargs rm -f
  (cd $T && diff -ruN a/maltoolbox b/maltoolbox > new.diff)
  V=/dev/shm/rebase-verify; rm -rf $V; mkdir $V; cp -r /repo/maltoolbox /repo/tests $V/; cp seeded/$n/demo.py $V/
  (cd $V && PYTHONPATH=$V /venv/bin/python demo.py >/dev/null 2>&1); r0=$?
  (cd $V && git apply --whitespace=nowarn $T/new.diff && PYTHONPATH=$V /venv/bin/python demo.py >/dev/null 2>&1); r1=$?
  ok=0; for k in 1 2 3; do res=$(cd $V && PYTHONPATH=$V /venv/bin/python -m pytest -q -p no:cacheprovider --timeout=900 tests 2>&1 | tail -1); case "$res" in *"60 passed"*) ok=1; break;; esac; sleep 3; done
  echo "$n: patch rc=$rc rejected_hunks=$rej demo_unchanged=$r0 demo_patched=$r1 tests_ok=$ok"
  if [ $r0 = 0 ] && [ $r1 != 0 ] && [ $ok = 1 ]; then
    [ -f seeded/$n/patch.orig.diff ] || cp seeded/$n/patch.diff seeded/$n/patch.orig.diff
    cp $T/new.diff seeded/$n/patch.diff
    python3 - <<P
import json
p='/verif/seeded/$n/meta.json'; m=json.load(open(p)); m['rebased_on']='$sha'
m['rebased_note']='context of the original patch (patch.orig.diff) no longer matched after later fix: commits; re-applied with fuzz, demo and 60 tests re-confirmed'
json.dump(m,open(p,'w'),indent=1)
P
  else echo "$n: NOT carried over"; fi
  rm -rf $V $T
done
