#!/venv/bin/python
"""Sensitivity / equivalence self-test.

  tools/sensitivity.py [--only name,...] [--tier quick] [--baseline] [--equiv]
                       [--seeded]  (also run /verif/seeded/*/patch.diff)

For each mutant: scratch copy of /repo's working tree on tmpfs, apply the change,
optionally run the repository's own 60 tests against the copy (they must pass),
run the listed checks with VERIF_REPO pointing at the copy, record the outcome,
remove the copy.  Results -> /verif/mutants/results.json (+ RESULTS.md).
"""
import argparse
import json
import os
import re
import shutil
import subprocess
import sys
import time

VERIF = os.path.dirname(os.path.dirname(os.path.abspath(__file__)))
sys.path.insert(0, VERIF)
sys.path.insert(0, os.path.join(VERIF, 'tools'))
import mutants as cat   # noqa: E402


def make_copy(tag):
    tmp = f'/dev/shm/mtb-mut-{os.getpid()}-{tag}'
    shutil.rmtree(tmp, ignore_errors=True)
    os.makedirs(tmp)
    shutil.copytree('/repo/maltoolbox', os.path.join(tmp, 'maltoolbox'),
                    ignore=shutil.ignore_patterns('__pycache__'))
    return tmp


def apply_text(tmp, name, file, old, new):
    path = os.path.join(tmp, file)
    src = open(path).read()
    if name in cat.FUNC_MUTANTS:
        f2, fn = cat.FUNC_MUTANTS[name]
        path = os.path.join(tmp, f2)
        src = open(path).read()
        out = fn(src)
    else:
        if src.count(old) != 1:
            raise RuntimeError(f'{name}: pattern matches {src.count(old)} times in {file}')
        out = src.replace(old, new)
    if out == src:
        raise RuntimeError(f'{name}: no change')
    open(path, 'w').write(out)


def run_baseline(tmp):
    shutil.copytree('/repo/tests', os.path.join(tmp, 'tests'),
                    ignore=shutil.ignore_patterns('__pycache__'))
    env = dict(os.environ, PYTHONPATH=tmp)
    p = subprocess.run(['/venv/bin/python', '-m', 'pytest', '-q', '-x', '-p', 'no:cacheprovider',
                        '--timeout=900', 'tests'], cwd=tmp, env=env, capture_output=True, text=True)
    tail = p.stdout.strip().splitlines()[-1] if p.stdout.strip() else p.stderr[-300:]
    return p.returncode == 0, tail


def run_check(tmp, prop, tier, runs=None):
    env = dict(os.environ, VERIF_REPO=tmp)
    if runs:
        env['VERIF_RUNS'] = str(runs)
    t = time.time()
    p = subprocess.run([os.path.join(VERIF, 'check'), prop, tier], cwd=VERIF, env=env,
                       capture_output=True, text=True)
    out = p.stdout
    viol = re.search(r'^VIOLATION property=(\S+) replay=(\S+)', out, re.M)
    detail = ''
    if viol:
        m = re.search(r'^  seed=.*$', out, re.M)
        detail = (m.group(0).strip() if m else '')
        lines = out.splitlines()
        idx = next(i for i, ln in enumerate(lines) if ln.startswith('VIOLATION'))
        detail += ' | ' + ' '.join(x.strip() for x in lines[idx + 2: idx + 4])[:300]
    return {'prop': prop, 'exit': p.returncode, 'violation': bool(viol),
            'replay': viol.group(2) if viol else None, 'detail': detail,
            'wall_s': round(time.time() - t, 1),
            'tail': out.strip().splitlines()[-1][:300] if out.strip() else p.stderr[-300:]}


def main():
    ap = argparse.ArgumentParser()
    ap.add_argument('--only')
    ap.add_argument('--tier', default='quick')
    ap.add_argument('--baseline', action='store_true')
    ap.add_argument('--equiv', action='store_true')
    ap.add_argument('--seeded', action='store_true')
    ap.add_argument('--runs', type=int)
    args = ap.parse_args()
    only = set(args.only.split(',')) if args.only else None
    os.makedirs(os.path.join(VERIF, 'mutants', 'replays'), exist_ok=True)
    respath = os.path.join(VERIF, 'mutants', 'results.json')
    results = json.load(open(respath)) if os.path.exists(respath) else {}
    items = []
    if not args.seeded:
        for name, props, file, old, new, note in (cat.EQUIVALENT if args.equiv else cat.MUTANTS):
            items.append(('equiv' if args.equiv else 'mutant', name, props, file, old, new, note))
    else:
        sd = os.path.join(VERIF, 'seeded')
        for d in sorted(os.listdir(sd)):
            meta = os.path.join(sd, d, 'meta.json')
            if os.path.exists(meta):
                m = json.load(open(meta))
                if m.get('obsolete_since'):
                    print(f'seeded  {d:40s} obsolete since {m["obsolete_since"]} (skipped)')
                    continue
                items.append(('seeded', d, m.get('check_with', [m['property']]),
                              os.path.join(sd, d, 'patch.diff'), None, None, m.get('needs', '')))
    for kind, name, props, file, old, new, note in items:
        if only and name not in only:
            continue
        tmp = make_copy(name)
        try:
            if kind == 'seeded':
                p = subprocess.run(['git', 'apply', '--whitespace=nowarn', file], cwd=tmp,
                                   capture_output=True, text=True)
                if p.returncode:
                    print(f'{name}: patch does not apply: {p.stderr[:300]}')
                    results[name] = {'kind': kind, 'error': 'patch does not apply'}
                    continue
            else:
                try:
                    apply_text(tmp, name, file, old, new)
                except RuntimeError as e:
                    # a catalogue entry whose pattern no longer matches the tree: reported, the
                    # run goes on (the entry has to be brought up to date)
                    print(f'{kind:7s} {name:40s} STALE-PATTERN {e}', flush=True)
                    results[name] = {'kind': kind, 'error': str(e)}
                    continue
            entry = {'kind': kind, 'note': note, 'expected': props, 'checks': []}
            if args.baseline:
                ok, tail = run_baseline(tmp)
                entry['baseline_passes'] = ok
                entry['baseline_tail'] = tail
            for prop in props:
                r = run_check(tmp, prop, args.tier, args.runs)
                if r['replay'] and os.path.exists(r['replay']):
                    dst = os.path.join(VERIF, 'mutants', 'replays', f'{name}.{prop}.json')
                    shutil.copy(r['replay'], dst)
                    r['replay'] = os.path.relpath(dst, VERIF)
                entry['checks'].append(r)
                verdict = ('CAUGHT' if r['violation'] else 'quiet') if r['exit'] in (0, 1) \
                    else f'HARNESS-ERROR({r["exit"]})'
                print(f'{kind:7s} {name:40s} {prop} {verdict:8s} {r["wall_s"]:6.1f}s  '
                      f'{r["detail"][:160] if r["violation"] else r["tail"][:120]}', flush=True)
            results[name] = entry
        finally:
            shutil.rmtree(tmp, ignore_errors=True)
        json.dump(results, open(respath, 'w'), indent=1, sort_keys=True)
    # markdown summary
    with open(os.path.join(VERIF, 'mutants', 'RESULTS.md'), 'w') as f:
        f.write('| change | kind | check | outcome | detail |\n|---|---|---|---|---|\n')
        for name in sorted(results):
            e = results[name]
            for r in e.get('checks', []):
                out = 'caught' if r['violation'] else ('quiet' if r['exit'] == 0 else f'exit {r["exit"]}')
                f.write(f'| {name} | {e["kind"]} | {r["prop"]} ({args.tier}) | {out} | '
                        f'{(r["detail"] or "").replace("|", "/")[:200]} |\n')


if __name__ == '__main__':
    main()
