#!/venv/bin/python
"""Confirm a seeded change produced by a sub-agent and file it under /verif/seeded.

  tools/seed_verify.py /tmp/seed-out/C05/1 [--name C05-1]

Confirms, in a scratch copy of /repo's working tree (tmpfs, removed afterwards):
  1. demo.py exits 0 on the unchanged tree,
  2. the patch applies,
  3. the repository's 60 tests pass with the patch,
  4. demo.py exits non-zero with the patch.
Only then copies patch.diff / demo.py / meta.json to /verif/seeded/<name>/ and
records what was run in meta.json.
"""
import json
import os
import shutil
import subprocess
import sys
import time

VERIF = os.path.dirname(os.path.dirname(os.path.abspath(__file__)))


def sh(cmd, cwd, env=None, timeout=900):
    p = subprocess.run(cmd, cwd=cwd, env=env, capture_output=True, text=True, timeout=timeout)
    return p.returncode, (p.stdout + p.stderr)


def main():
    src = sys.argv[1].rstrip('/')
    name = sys.argv[3] if len(sys.argv) > 3 and sys.argv[2] == '--name' else \
        f'{os.path.basename(os.path.dirname(src))}-{os.path.basename(src)}'
    tmp = f'/dev/shm/mtb-seed-{os.getpid()}'
    shutil.rmtree(tmp, ignore_errors=True)
    os.makedirs(tmp)
    try:
        for d in ('maltoolbox', 'tests'):
            shutil.copytree(f'/repo/{d}', f'{tmp}/{d}', ignore=shutil.ignore_patterns('__pycache__'))
        shutil.copy(f'{src}/demo.py', f'{tmp}/demo.py')
        env = dict(os.environ, PYTHONPATH=tmp)
        env.pop('VERIF_REPO', None)
        ran = []
        rc0, out0 = sh(['/venv/bin/python', 'demo.py'], tmp, env)
        ran.append({'cmd': 'demo.py on the unchanged tree', 'exit': rc0})
        if rc0 != 0:
            print(f'{name}: REJECTED demo fails on the unchanged tree (exit {rc0})\n{out0[-800:]}')
            return 1
        rc, out = sh(['git', 'apply', '--whitespace=nowarn', os.path.abspath(f'{src}/patch.diff')], tmp)
        ran.append({'cmd': 'git apply patch.diff', 'exit': rc})
        if rc != 0:
            print(f'{name}: REJECTED patch does not apply\n{out[-800:]}')
            return 1
        ok = False
        for attempt in range(4):        # the suite writes fixed /tmp paths; other runs may collide
            rc, out = sh(['/venv/bin/python', '-m', 'pytest', '-q', '-p', 'no:cacheprovider',
                          '--timeout=900', 'tests'], tmp, env)
            if rc == 0:
                ok = True
                break
            time.sleep(5)
        tail = out.strip().splitlines()[-1] if out.strip() else ''
        ran.append({'cmd': 'pytest tests (60 tests) with the patch', 'exit': rc, 'tail': tail})
        if not ok:
            print(f'{name}: REJECTED existing tests fail with the patch: {tail}')
            return 1
        rc1, out1 = sh(['/venv/bin/python', 'demo.py'], tmp, env)
        ran.append({'cmd': 'demo.py with the patch', 'exit': rc1, 'tail': out1.strip()[-600:]})
        if rc1 == 0:
            print(f'{name}: REJECTED demo does not fail with the patch')
            return 1
        dst = os.path.join(VERIF, 'seeded', name)
        os.makedirs(dst, exist_ok=True)
        for f in ('patch.diff', 'demo.py'):
            shutil.copy(f'{src}/{f}', f'{dst}/{f}')
        meta = json.load(open(f'{src}/meta.json'))
        meta['confirmed'] = ran
        meta['confirmed_on_repo_head'] = subprocess.run(
            ['git', '-C', '/repo', 'rev-parse', '--short', 'HEAD'],
            capture_output=True, text=True).stdout.strip()
        meta.setdefault('check_with', [meta['property']])
        json.dump(meta, open(f'{dst}/meta.json', 'w'), indent=1)
        print(f'{name}: confirmed (tests {tail}; demo exit {rc0} -> {rc1})')
        return 0
    finally:
        shutil.rmtree(tmp, ignore_errors=True)


if __name__ == '__main__':
    sys.exit(main())
