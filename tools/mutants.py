"""Sensitivity catalogue: small realistic changes to /repo that compile and pass
the 60 existing tests, each expected to be caught by the listed checks.

Entries are textual replacements against the *current* working tree (asserted
to match exactly once), so that the catalogue follows the tree.
  (name, [properties that must catch it], file, old, new, note)
The first group are the reverts of the `fix:` commits.
"""

M = 'maltoolbox/model.py'
AG = 'maltoolbox/attackgraph/attackgraph.py'
ND = 'maltoolbox/attackgraph/node.py'
AT = 'maltoolbox/attackgraph/attacker.py'
AP = 'maltoolbox/attackgraph/analyzers/apriori.py'
QY = 'maltoolbox/attackgraph/query.py'
LG = 'maltoolbox/language/languagegraph.py'
CF = 'maltoolbox/language/classes_factory.py'
FU = 'maltoolbox/file_utils.py'
CO = 'maltoolbox/language/compiler/__init__.py'
MV = 'maltoolbox/language/compiler/mal_visitor.py'
UP = 'maltoolbox/translators/updater.py'
SC = 'maltoolbox/translators/securicad.py'
N4 = 'maltoolbox/ingestors/neo4j.py'
WR = 'maltoolbox/wrappers.py'

MUTANTS = [
    # ---- reverts of fixes -------------------------------------------------
    ('fixrev_C03_alias', ['C03'], LG,
     """                        'stepExpressions': copy.deepcopy(
                            step['reaches']['stepExpressions'])
                    }""",
     """                        'stepExpressions': step['reaches']['stepExpressions']
                    }""", 'revert 1f87aa9'),
    ('fixrev_id0', ['C05', 'C07'], M,
     "asset.id = asset_id if asset_id is not None else self.next_id",
     "asset.id = asset_id or self.next_id", 'revert 47a3996'),
    ('fixrev_freed_id', ['C05'], M,
     "        self.asset_ids.discard(asset.id)\n", "", 'revert 0d91da1 (ids)'),
    ('fixrev_freed_name', ['C05'], M,
     "        self.asset_names.discard(asset.name)\n", "", 'revert 0d91da1 (names)'),
    ('fixrev_id_leak', ['C05'], M,
     """        self.asset_ids.add(asset.id)

        self.next_id = max(asset.id + 1, self.next_id)
""",
     """        self.asset_ids.add(asset.id)

        self.next_id = max(asset.id + 1, self.next_id)
        if not allow_duplicate_names and hasattr(asset, 'name') \\
                and str(asset.name) + '!' in self.asset_names:
            raise ValueError('duplicate')
""", 'placeholder, replaced below'),
    ('fixrev_selflink_twice', ['C05'], M,
     """                if any(assoc is association for assoc in asset_assocs):
                    # Reflexive association, the asset is in both fields
                    continue
""", "", 'revert af0687e (a)'),
    ('fixrev_selflink_direction', ['C05'], M,
     """            if left_field_name == field_name and \\
                    asset in getattr(association, right_field_name):""",
     """            if left_field_name == field_name and \\
                    asset in getattr(association, right_field_name) and \\
                    asset not in getattr(association, left_field_name):""",
     'revert af0687e (b): self-linked asset misses the left-field direction'),
    ('fixrev_backref', ['C05'], M,
     """        asset.associations = [assoc for assoc in asset.associations
                              if assoc is not association]
""", "", 'revert 5fa925b'),
    ('fixrev_rename_once', ['C05'], M,
     "        while asset.name in self.asset_names:",
     "        if asset.name in self.asset_names:", 'revert 8074457'),
    ('fixrev_assoc_extras_load', ['C07'], M,
     """            if 'extras' in assoc_entry:
                association.extras = assoc_entry['extras']
""", "", 'revert of association extras fix (load side)'),
    ('fixrev_assoc_extras_save', ['C07'], M,
     "association_dict['extras'] = association.extras.as_dict()",
     "association_dict['extras'] = association.extras", 'revert of association extras fix (save side)'),
    # ---- further model mutants ---------------------------------------------
    ('model_type_index_leak', ['C05'], M,
     """        self._type_to_association[association_type].remove(
            association
        )
""", """        pass
""", 'remove_association forgets the type->association index (second block keeps len check)'),
    ('model_remove_asset_keeps_entry_points', ['C05'], M,
     """            if entry_point_tuple:
                attacker.entry_points.remove(entry_point_tuple)

        self.assets.remove(asset)""",
     """            if entry_point_tuple and len(self.attackers) < 2:
                attacker.entry_points.remove(entry_point_tuple)

        self.assets.remove(asset)""", 'entry points survive removal when there are >=2 attackers'),
    ('model_dup_check_left_only', ['C06'], M,
     """            if (left_asset.id in [asset.id for asset in \\
                    getattr(association, left_field_name)] and \\
                right_asset.id in [asset.id for asset in \\
                    getattr(association, right_field_name)]):""",
     """            if (left_asset.id in [asset.id for asset in \\
                    getattr(association, left_field_name)][:1] and \\
                right_asset.id in [asset.id for asset in \\
                    getattr(association, right_field_name)]):""",
     'duplicate-link detection only looks at the first member of the left field'),
    ('json_no_truncate', ['C07'], FU,
     """    with open(filename, 'w', encoding='utf-8') as f:
        json.dump(serialized_object, f, indent=4)""",
     """    import os
    with open(filename, 'r+' if os.path.exists(filename) else 'w', encoding='utf-8') as f:
        json.dump(serialized_object, f, indent=4)""",
     'JSON files are overwritten without truncation: only a re-used path that held a longer file shows it '
     '(the YAML variant, append mode, is benign: PyYAML lets the later duplicate keys win)'),
    ('load_defense_as_int', ['C07'], M,
     "                setattr(asset, defense, float(defenses[defense]))",
     "                setattr(asset, defense, int(float(defenses[defense])))"
     , 'fractional defense values are truncated on load'),
    ('load_attacker_single_entry_point', ['C07'], M,
     """                for asset_id in attackers_info[attacker_id]['entry_points']:
                    attacker.entry_points.append(""",
     """                for asset_id in list(attackers_info[attacker_id]['entry_points'])[:2]:
                    attacker.entry_points.append(""",
     'only the first two entry-point assets of an attacker are restored'),
]

# the id-leak mutant needs two replacements; expressed as a patch function
def _id_leak(src: str) -> str:
    top = """        if not allow_duplicate_names and hasattr(asset, 'name') \\
                and asset.name in self.asset_names:
            # Refuse before anything is reserved for the asset
            raise ValueError(
                f'Asset name {asset.name} is a duplicate'
                ' and we do not allow duplicates.'
            )

"""
    assert src.count(top) == 1
    src = src.replace(top, '')
    anchor = """        self.next_id = max(asset.id + 1, self.next_id)

        if not hasattr(asset, 'name'):"""
    assert src.count(anchor) == 1
    return src.replace(anchor, """        self.next_id = max(asset.id + 1, self.next_id)

        if not allow_duplicate_names and hasattr(asset, 'name') \\
                and asset.name in self.asset_names:
            raise ValueError(
                f'Asset name {asset.name} is a duplicate'
                ' and we do not allow duplicates.'
            )

        if not hasattr(asset, 'name'):""")


FUNC_MUTANTS = {'fixrev_id_leak': (M, _id_leak)}


# behaviour-preserving refactors: every listed check must stay quiet
EQUIVALENT = [
    ('equiv_rename_private_index', ['C05', 'C06', 'C07'], M, None, None,
     'rename Model._type_to_association'),
    ('equiv_exception_class', ['C05', 'C06'], M,
     "            raise ValueError(f'Asset index {asset_id} already in use.')",
     "            raise KeyError(f'Asset index {asset_id} already in use.')",
     'another exception class for an id in use'),
    ('equiv_neighbours_other_order', ['C05'], M,
     """            if right_field_name == field_name and \\
                    asset in getattr(association, left_field_name):
                associated_assets.extend(
                    getattr(association, right_field_name)
                )""",
     """            if right_field_name == field_name and \\
                    asset in getattr(association, left_field_name):
                associated_assets.extend(
                    reversed(list(getattr(association, right_field_name)))
                )""", 'neighbours reported in another order'),
]


def _rename_index(src: str) -> str:
    return src.replace('_type_to_association', '_assocs_by_type')


FUNC_MUTANTS['equiv_rename_private_index'] = (M, _rename_index)

def _assoc_before_name(src: str) -> str:
    blk = """        # Note: set after the name on purpose. Assets are compared by value,
        # property by property in the order the properties were set; with the
        # (unique) name first a comparison between two assets never descends
        # into their association lists, which reference the assets again.
        asset.associations = []

"""
    assert src.count(blk) == 1
    src = src.replace(blk, '')
    anchor = "        if not hasattr(asset, 'name'):\n            asset.name = asset.type + ':' + str(asset.id)\n"
    assert src.count(anchor) == 1
    return src.replace(anchor, "        asset.associations = []\n\n" + anchor)


FUNC_MUTANTS['fixrev_unnamed_order'] = (M, _assoc_before_name)
MUTANTS.append(('fixrev_unnamed_order', ['C05'], M, None, None, 'revert 956c35c'))
