"""Sensitivity catalogue: small realistic changes to /repo that compile and pass
the 60 existing tests, each expected to be caught by the listed checks.

Entries are textual replacements against the *current* working tree (asserted
to match exactly once), so that the catalogue follows the tree.
  (name, [properties that must catch it], file, old, new, note)
The first group are the reverts of the `fix:` commits.
"""

M = 'maltoolbox/model.py'
AG = 'maltoolbox/attackgraph/attackgraph.py'
ND = 'maltoolbox/attackgraph/node.py'
AT = 'maltoolbox/attackgraph/attacker.py'
AP = 'maltoolbox/attackgraph/analyzers/apriori.py'
QY = 'maltoolbox/attackgraph/query.py'
LG = 'maltoolbox/language/languagegraph.py'
CF = 'maltoolbox/language/classes_factory.py'
FU = 'maltoolbox/file_utils.py'
CO = 'maltoolbox/language/compiler/__init__.py'
MV = 'maltoolbox/language/compiler/mal_visitor.py'
UP = 'maltoolbox/translators/updater.py'
SC = 'maltoolbox/translators/securicad.py'
N4 = 'maltoolbox/ingestors/neo4j.py'
WR = 'maltoolbox/wrappers.py'

MUTANTS = [
    # ---- reverts of fixes -------------------------------------------------
    ('fixrev_C03_alias', ['C03'], LG,
     """                        'stepExpressions': copy.deepcopy(
                            step['reaches']['stepExpressions'])
                    }""",
     """                        'stepExpressions': step['reaches']['stepExpressions']
                    }""", 'revert 1f87aa9'),
    ('fixrev_id0', ['C05', 'C07'], M,
     "asset.id = asset_id if asset_id is not None else self.next_id",
     "asset.id = asset_id or self.next_id", 'revert 47a3996'),
    ('fixrev_freed_id', ['C05'], M,
     "        self.asset_ids.discard(asset.id)\n", "", 'revert 0d91da1 (ids)'),
    ('fixrev_freed_name', ['C05'], M,
     "        self.asset_names.discard(asset.name)\n", "", 'revert 0d91da1 (names)'),
    ('fixrev_id_leak', ['C05'], M,
     """        self.asset_ids.add(asset.id)

        self.next_id = max(asset.id + 1, self.next_id)
""",
     """        self.asset_ids.add(asset.id)

        self.next_id = max(asset.id + 1, self.next_id)
        if not allow_duplicate_names and hasattr(asset, 'name') \\
                and str(asset.name) + '!' in self.asset_names:
            raise ValueError('duplicate')
""", 'placeholder, replaced below'),
    ('fixrev_selflink_twice', ['C05'], M,
     """                if any(assoc is association for assoc in asset_assocs):
                    # Reflexive association, the asset is in both fields
                    continue
""", "", 'revert af0687e (a)'),
    ('fixrev_selflink_direction', ['C05'], M,
     """            if left_field_name == field_name and \\
                    asset in getattr(association, right_field_name):""",
     """            if left_field_name == field_name and \\
                    asset in getattr(association, right_field_name) and \\
                    asset not in getattr(association, left_field_name):""",
     'revert af0687e (b): self-linked asset misses the left-field direction'),
    ('fixrev_backref', ['C05'], M,
     """        asset.associations = [assoc for assoc in asset.associations
                              if assoc is not association]
""", "", 'revert 5fa925b'),
    ('fixrev_rename_once', ['C05'], M,
     "        while asset.name in self.asset_names:",
     "        if asset.name in self.asset_names:", 'revert 8074457'),
    ('fixrev_assoc_extras_load', ['C07'], M,
     """            if 'extras' in assoc_entry:
                association.extras = assoc_entry['extras']
""", "", 'revert of association extras fix (load side)'),
    ('fixrev_assoc_extras_save', ['C07'], M,
     "association_dict['extras'] = association.extras.as_dict()",
     "association_dict['extras'] = association.extras", 'revert of association extras fix (save side)'),
    # ---- further model mutants ---------------------------------------------
    ('model_type_index_leak', ['C05'], M,
     """        self._type_to_association[association_type].remove(
            association
        )
""", """        pass
""", 'remove_association forgets the type->association index (second block keeps len check)'),
    ('model_remove_asset_keeps_entry_points', ['C05'], M,
     """            if entry_point_tuple:
                attacker.entry_points.remove(entry_point_tuple)

        self.assets.remove(asset)""",
     """            if entry_point_tuple and len(self.attackers) < 2:
                attacker.entry_points.remove(entry_point_tuple)

        self.assets.remove(asset)""", 'entry points survive removal when there are >=2 attackers'),
    ('model_dup_check_left_only', ['C06'], M,
     """            if (left_asset.id in [asset.id for asset in \\
                    getattr(association, left_field_name)] and \\
                right_asset.id in [asset.id for asset in \\
                    getattr(association, right_field_name)]):""",
     """            if (left_asset.id in [asset.id for asset in \\
                    getattr(association, left_field_name)][:1] and \\
                right_asset.id in [asset.id for asset in \\
                    getattr(association, right_field_name)]):""",
     'duplicate-link detection only looks at the first member of the left field'),
    ('json_no_truncate', ['C07'], FU,
     """    with open(filename, 'w', encoding='utf-8') as f:
        json.dump(serialized_object, f, indent=4)""",
     """    import os
    with open(filename, 'r+' if os.path.exists(filename) else 'w', encoding='utf-8') as f:
        json.dump(serialized_object, f, indent=4)""",
     'JSON files are overwritten without truncation: only a re-used path that held a longer file shows it '
     '(the YAML variant, append mode, is benign: PyYAML lets the later duplicate keys win)'),
    ('load_defense_as_int', ['C07'], M,
     "                setattr(asset, defense, float(defenses[defense]))",
     "                setattr(asset, defense, int(float(defenses[defense])))"
     , 'fractional defense values are truncated on load'),
    ('load_attacker_single_entry_point', ['C07'], M,
     """                for asset_id in attackers_info[attacker_id]['entry_points']:
                    attacker.entry_points.append(""",
     """                for asset_id in list(attackers_info[attacker_id]['entry_points'])[:2]:
                    attacker.entry_points.append(""",
     'only the first two entry-point assets of an attacker are restored'),
]

# the id-leak mutant needs two replacements; expressed as a patch function
def _id_leak(src: str) -> str:
    top = """        if not allow_duplicate_names and hasattr(asset, 'name') \\
                and asset.name in self.asset_names:
            # Refuse before anything is reserved for the asset
            raise ValueError(
                f'Asset name {asset.name} is a duplicate'
                ' and we do not allow duplicates.'
            )

"""
    assert src.count(top) == 1
    src = src.replace(top, '')
    anchor = """        self.next_id = max(asset.id + 1, self.next_id)

        if not hasattr(asset, 'name'):"""
    assert src.count(anchor) == 1
    return src.replace(anchor, """        self.next_id = max(asset.id + 1, self.next_id)

        if not allow_duplicate_names and hasattr(asset, 'name') \\
                and asset.name in self.asset_names:
            raise ValueError(
                f'Asset name {asset.name} is a duplicate'
                ' and we do not allow duplicates.'
            )

        if not hasattr(asset, 'name'):""")


FUNC_MUTANTS = {'fixrev_id_leak': (M, _id_leak)}


# behaviour-preserving refactors: every listed check must stay quiet
EQUIVALENT = [
    ('equiv_rename_private_index', ['C05', 'C06', 'C07'], M, None, None,
     'rename Model._type_to_association'),
    ('equiv_exception_class', ['C05', 'C06'], M,
     "            raise ValueError(f'Asset index {asset_id} already in use.')",
     "            raise KeyError(f'Asset index {asset_id} already in use.')",
     'another exception class for an id in use'),
    ('equiv_neighbours_other_order', ['C05'], M,
     """            if right_field_name == field_name and \\
                    asset in getattr(association, left_field_name):
                associated_assets.extend(
                    getattr(association, right_field_name)
                )""",
     """            if right_field_name == field_name and \\
                    asset in getattr(association, left_field_name):
                associated_assets.extend(
                    reversed(list(getattr(association, right_field_name)))
                )""", 'neighbours reported in another order'),
]


def _rename_index(src: str) -> str:
    return src.replace('_type_to_association', '_assocs_by_type')


FUNC_MUTANTS['equiv_rename_private_index'] = (M, _rename_index)

def _assoc_before_name(src: str) -> str:
    blk = """        # Note: set after the name on purpose. Assets are compared by value,
        # property by property in the order the properties were set; with the
        # (unique) name first a comparison between two assets never descends
        # into their association lists, which reference the assets again.
        asset.associations = []

"""
    assert src.count(blk) == 1
    src = src.replace(blk, '')
    anchor = "        if not hasattr(asset, 'name'):\n            asset.name = asset.type + ':' + str(asset.id)\n"
    assert src.count(anchor) == 1
    return src.replace(anchor, "        asset.associations = []\n\n" + anchor)


FUNC_MUTANTS['fixrev_unnamed_order'] = (M, _assoc_before_name)
MUTANTS.append(('fixrev_unnamed_order', ['C05'], M, None, None, 'revert 956c35c'))

# ---- attack graph: reverts of fixes ---------------------------------------
MUTANTS += [
    ('fixrev_addnode_id_check', ['C09'], AG,
     """        new_id = node_id if node_id is not None else self.next_node_id
        if new_id in self._id_to_node:""",
     """        new_id = node_id if node_id is not None else self.next_node_id
        if node.id in self._id_to_node:""", 'revert 8bd6494'),
    ('fixrev_regenerate_indexes', ['C09'], AG,
     """        self._id_to_node = {}
        self._full_name_to_node = {}
        self._id_to_attacker = {}
        self.next_node_id = 0
        self.next_attacker_id = 0
        self._generate_graph()""",
     """        self._generate_graph()""", 'revert 9f2cae9'),
    ('fixrev_regenerate_name_index_only', ['C09'], AG,
     """        self._full_name_to_node = {}
        self._id_to_attacker = {}""",
     """        self._id_to_attacker = {}""", 'partial revert 9f2cae9: only the full-name index keeps stale entries'),
    ('fixrev_remove_node_attackers', ['C09', 'C13'], AG,
     """        for attacker in list(node.compromised_by):
            attacker.undo_compromise(node)
""", "", 'revert 42b31a0 (reached side)'),
    ('fixrev_remove_node_entry_points', ['C09'], AG,
     """        for attacker in self.attackers:
            attacker.entry_points = [entry_point
                for entry_point in attacker.entry_points
                if entry_point is not node]
""", "", 'revert 42b31a0 (entry-point side)'),
    ('fixrev_attacker_id0', ['C09'], AG,
     """        new_id = attacker_id if attacker_id is not None \\
            else self.next_attacker_id""",
     """        new_id = attacker_id or self.next_attacker_id""", 'revert 3cdce99'),
    ('fixrev_remove_attacker_iter', ['C11'], AG,
     "        for node in list(attacker.reached_attack_steps):\n            attacker.undo_compromise(node)",
     "        for node in attacker.reached_attack_steps:\n            attacker.undo_compromise(node)",
     'revert 47e1b38'),
    ('fixrev_prune_iter', ['C13'], AP,
     "    for node in list(graph.nodes):\n        if (node.type == 'or' or node.type == 'and') and \\",
     "    for node in graph.nodes:\n        if (node.type == 'or' or node.type == 'and') and \\",
     'revert b1a693d'),
    ('fixrev_ttc_shared', ['C14'], ND,
     "            copy.deepcopy(self.ttc, memo),", "            self.ttc,", 'revert f48a8de'),
    ('fixrev_tags_str', ['C10'], ND,
     "            node_dict['tags'] = list(self.tags)", "            node_dict['tags'] = str(self.tags)",
     'revert 5490cd8'),
    ('fixrev_attackers_by_name', ['C10'], AG,
     "            serialized_attackers[attacker.id] = attacker.to_dict()",
     "            serialized_attackers[attacker.name] = attacker.to_dict()", 'revert 3bbceb8'),
    # ---- further attack-graph mutants --------------------------------------
    ('ag_remove_node_keeps_name_index', ['C09'], AG,
     "        del self._full_name_to_node[node.full_name]\n", "",
     'remove_node forgets the full-name index'),
    ('ag_deepcopy_shallow_id_index', ['C14', 'C09'], AG,
     """        copied_attackgraph._id_to_node = \\
            copy.deepcopy(self._id_to_node, memo)""",
     """        copied_attackgraph._id_to_node = \\
            dict(self._id_to_node)""", 'the copy looks nodes up in the original'),
    ('ag_deepcopy_compromised_by_lost', ['C14', 'C11'], AG,
     """            if node.compromised_by:
                memo[id(node)].compromised_by = copy.deepcopy(
                    node.compromised_by, memo)""",
     """            if len(node.compromised_by) == 1:
                memo[id(node)].compromised_by = copy.deepcopy(
                    node.compromised_by, memo)""",
     'nodes compromised by two attackers lose compromised_by in the copy'),
    ('attacker_undo_one_sided', ['C11'], AT,
     """        node.compromised_by.remove(self)
        self.reached_attack_steps.remove(node)""",
     """        node.compromised_by.remove(self)
        if len(self.reached_attack_steps) > 1:
            self.reached_attack_steps.remove(node)""",
     'undoing the last compromise leaves the attacker side'),
    ('query_surface_no_dedupe', ['C12'], QY,
     """            if is_traversable and child not in attack_surface:""",
     """            if is_traversable:""", 'update_attack_surface_add_nodes skips the duplicate test'),
    ('query_and_ignores_necessity', ['C12'], QY,
     """                if parent.is_necessary and \\
                    not parent.is_compromised_by(attacker):""",
     """                if not parent.is_compromised_by(attacker):""",
     'unnecessary parents also have to be compromised'),
    ('query_enabled_defense_ignores_suppress', ['C12'], ND,
     """        return self.type == 'defense' and \\
            'suppress' not in self.tags and \\
            self.defense_status == 1.0""",
     """        return self.type == 'defense' and \\
            self.defense_status == 1.0""", 'suppressed defenses are reported as enabled'),
    ('load_drops_parent_links_of_last', ['C10'], AG,
     """                for parent_id in node_dict['parents']:
                    parent = attack_graph.get_node_by_id(int(parent_id))""",
     """                for parent_id in list(node_dict['parents'])[:3]:
                    parent = attack_graph.get_node_by_id(int(parent_id))""",
     'only the first three parents of a node are restored'),
]

EQUIVALENT.append(('load_existence_status_inverted_default', ['C10'], AG,
     """            ag_node.is_necessary = node_dict['is_necessary'] == 'True' if \\
                'is_necessary' in node_dict else True""",
     """            ag_node.is_necessary = node_dict['is_necessary'] != 'False' if \\
                'is_viable' in node_dict else True""", 'benign-looking rewrite; equivalent'))

# ---- apriori analysis (C08) ---------------------------------------------------
MUTANTS += [
    ('fixrev_selfloop_viability', ['C08'], AP,
     """            child.is_viable = any(parent.is_viable
                for parent in child.parents)""",
     """            child.is_viable = False
            for parent in child.parents:
                child.is_viable = child.is_viable or parent.is_viable""", 'revert 3773716 (viability)'),
    ('fixrev_selfloop_necessity', ['C08'], AP,
     """            child.is_necessary = any(_is_necessary_for_children(parent)
                for parent in child.parents)""",
     """            child.is_necessary = False
            for parent in child.parents:
                child.is_necessary = child.is_necessary or _is_necessary_for_children(parent)""",
     'revert 3773716 (necessity)'),
    ('fixrev_ttc_gate_siblings', ['C08'], AP,
     """            child.is_necessary = any(_is_necessary_for_children(parent)
                for parent in child.parents)""",
     """            child.is_necessary = any(parent.is_necessary
                for parent in child.parents)""", 'revert 0ff5db9'),
    ('apriori_no_ttc_gate', ['C08'], AP,
     """    if _has_ttc_distribution(node):
        # Do not propagate""",
     """    if False and _has_ttc_distribution(node):
        # Do not propagate""", 'propagate_necessity ignores the TTC gate'),
    ('apriori_defense_partial_is_unviable', ['C08'], AP,
     "            node.is_viable = node.defense_status != 1.0",
     "            node.is_viable = node.defense_status < 0.5", 'a half-enabled defense makes its children non-viable'),
    ('apriori_notexist_necessity_flipped', ['C08'], AP,
     "            node.is_necessary = bool(node.existence_status)",
     "            node.is_necessary = not node.existence_status", 'notExist necessity inverted'),
    ('apriori_no_recursion_on_and', ['C08'], AP,
     """        if child.is_viable != original_value:
            propagate_viability_from_node(child)""",
     """        if child.is_viable != original_value and child.type == 'or':
            propagate_viability_from_node(child)""", 'non-viability stops at and-steps'),
]

MUTANTS += [
    ('fixrev_add_attacker_atomic', ['C09'], AG,
     """        for node_id in list(reached_attack_steps) + list(entry_points):
            if self.get_node_by_id(int(node_id)) is None:""",
     """        for node_id in []:
            if self.get_node_by_id(int(node_id)) is None:""", 'revert 80467fa'),
]

MUTANTS += [
    ('fixrev_append_over_multiplicity', ['C06'], 'maltoolbox/model.py',
     """            field_assets.validate_length()
""", """            pass
""", 'revert 2d11579'),
    ('fixrev_attacker_id_not_integer', ['C05'], 'maltoolbox/model.py',
     """        if attacker_id is not None and (
                not isinstance(attacker_id, int)
                or isinstance(attacker_id, bool)):""",
     """        if False:""", 'revert 054e279'),
]

MUTANTS += [
    ('fixrev_refused_add_attacker_id', ['C09'], AG,
     """        if new_id in self._id_to_attacker:
            raise ValueError(f'Attacker index {attacker_id} already in use.')
""",
     """        attacker.id = new_id
        if new_id in self._id_to_attacker:
            raise ValueError(f'Attacker index {attacker_id} already in use.')
""", 'revert 62affdc (with the in-graph refusal moved behind it)'),
    ('fixrev_readd_removed_node', ['C09'], AG,
     """        node.children = []
        node.parents = []
""", """        pass
""", 'revert e0778b6'),
    ('fixrev_readd_node', ['C09'], AG,
     """        if node.id is not None and self._id_to_node.get(node.id) is node:""",
     """        if False:""", 'revert da5a5c6'),
    ('fixrev_readd_attacker', ['C09', 'C11'], AG,
     """        if any(attacker is existing for existing in self.attackers):""",
     """        if False:""", 'revert d67b153'),
]

# ---- compiler (C04, C17) -------------------------------------------------------
MUTANTS += [
    ('fixrev_ttc_product', ['C04'], MV,
     """                "multiplication"
                if ctx.children[2 * i - 1].getText() == "*"
                else "division"
            )
            ret["lhs"] = lhs
            ret["rhs"] = self.visit(factors[i])""",
     """                "multiplication"
                if ctx.STAR()
                else "division"
            )
            ret["lhs"] = lhs
            ret["rhs"] = self.visit(factors[i])""", 'partial revert b4345a6: operator taken from "any * in the term"'),
    ('fixrev_raising_listener_parser', ['C17'], CO,
     """        parser.removeErrorListeners()
        parser.addErrorListener(error_listener)
""", "", 'revert dc18ddc (parser side)'),
    ('compiler_include_dedupe_before_merge', ['C04'], MV,
     """                    included_file = self.compiler.compile(value)
                    for k, v in langspec.items():""",
     """                    included_file = self.compiler.compile(value)
                    if value in getattr(self.compiler, '_seen_includes', set()):
                        continue
                    self.compiler._seen_includes = getattr(self.compiler, '_seen_includes', set()) | {value}
                    for k, v in langspec.items():""",
     'a file is merged only the first time a compiler instance sees it (breaks instance re-use)'),
    ('visitor_setop_precedence', ['C04'], MV,
     """        for i in range(1, len(ctx.parts())):
            ret["type"] = self.visit(ctx.children[2 * i - 1])
            ret["lhs"] = lhs
            ret["rhs"] = self.visit(ctx.parts()[i])
            lhs = ret.copy()""",
     """        for i in range(1, len(ctx.parts())):
            ret["type"] = self.visit(ctx.children[1])
            ret["lhs"] = lhs
            ret["rhs"] = self.visit(ctx.parts()[i])
            lhs = ret.copy()""", 'every set operator of an expression is read as the first one'),
    ('visitor_mult_single_star', ['C04'], MV,
     """            if association[key][subkey] == "*":
                # 'any' as lower limit means start from 0
                if subkey == "min":
                    association[key][subkey] = 0""",
     """            if association[key][subkey] == "*":
                # 'any' as lower limit means start from 0
                if subkey == "min":
                    association[key][subkey] = 1 if association[key]["max"] is None else 0""",
     'benign-looking: unreachable because max is processed first'),
    ('visitor_dedupe_assets_by_name', ['C04'], MV,
     """            unique = []
            for item in langspec[key]:
                if item not in unique:
                    unique.append(item)""",
     """            unique = []
            for item in langspec[key]:
                if item.get("name") not in [u.get("name") for u in unique]:
                    unique.append(item)""",
     'de-duplication by name: same-named associations collapse'),
]

EQUIVALENT.append(('compiler_include_relative_to_includer', ['C04'], CO,
     """        if not self.path:
            self.path = os.path.dirname(malfile)""",
     """        if not self.path:
            self.path = os.path.dirname(os.path.abspath(malfile))""",
     'equivalent: absolute path of the first file'))

# ---- translators / ingestor (C18, C19) -------------------------------------------
N4_SIG_NEW = """        assoc_name = lang_classes_factory.get_association_by_signature(
            assoc.name,
            assoc.left_field.asset.name,
            assoc.right_field.asset.name
        )"""
N4_SIG_OLD = """        assoc_name = lang_classes_factory.get_association_by_signature(
            assoc.name,
            left_asset.type,
            right_asset.type
        )"""
MUTANTS += [
    ('fixrev_scad_entry_points', ['C18'], SC,
     """            attacker.add_entry_point(target_asset,
                target_prop.split('.')[0])""",
     """            attacker.entry_points.append((target_asset,
                [target_prop.split('.')[0]]))""", 'revert 6b2bc85'),
    ('fixrev_scad_signature', ['C18'], SC,
     """            lang_graph_assoc.left_field.asset.name,
            lang_graph_assoc.right_field.asset.name""",
     """            left_asset.type,
            right_asset.type""", 'revert 6286a5f'),
    ('fixrev_neo_cross_product', ['C19'], N4,
     """                left_field, right_field
            )
            continue""",
     """                left_field, right_field
            )
            return None""", 'revert be9cb72'),
    ('fixrev_neo_mirrored', ['C19'], N4,
     """        if not instance_model.association_exists_between_assets(
            assoc_name,
            getattr(assoc, first_field)[0],
            getattr(assoc, second_field)[0]
        ):""",
     """        if not (instance_model.association_exists_between_assets(
            assoc_name, left_asset, right_asset
        ) or instance_model.association_exists_between_assets(
            assoc_name, right_asset, left_asset
        )):""", 'revert f0d3082'),
    ('fixrev_neo_signature', ['C19'], N4, N4_SIG_NEW, N4_SIG_OLD, 'revert 1a69815'),
    ('neo_one_direction_only', ['C19'], N4,
     """                rels.append(Relationship(nodes[str(second_asset.id)],
                    str(secondElementName),
                    nodes[str(first_asset.id)]))
""", "", 'ingest_model emits one direction only'),
    ('neo_graph_ingest_skips_leaf_edges', ['C19'], N4,
     """        for child in node.children:
            rels.append(Relationship(nodes[node.id], nodes[child.id]))""",
     """        for child in node.children:
            if child.children:
                rels.append(Relationship(nodes[node.id], nodes[child.id]))""",
     'edges into leaf steps are not exported'),
    ('updater_defense_default_skipped', ['C18'], UP,
     "                setattr(asset, defense, float(defenses[defense]))",
     "                if float(defenses[defense]):\n                    setattr(asset, defense, float(defenses[defense]))",
     '0.0.39 loader ignores defenses given as 0 (matters when the default is 1)'),
    ('scad_negative_id_abs', ['C18'], SC,
     "        asset_id = int(child.attrib['id'])",
     "        asset_id = abs(int(child.attrib['id']))", 'negative ids are made positive'),
]

# ---- determinism / inputs (C16) ---------------------------------------------------
MUTANTS += [
    ('gen_steps_via_set', ['C16'], AG,
     "            for attack_step_name, attack_step_attribs in attack_steps.items():",
     "            for attack_step_name in set(attack_steps):\n                attack_step_attribs = attack_steps[attack_step_name]",
     'steps of an asset are visited in set order: node ids depend on PYTHONHASHSEED'),
    ('gen_assets_sorted_by_hash', ['C16'], AG,
     "        for asset in self.model.assets:\n\n            logger.debug(\n                'Generating attack steps for asset %s which is of class %s.',",
     "        for asset in sorted(self.model.assets, key=lambda a: hash(str(a.name))):\n\n            logger.debug(\n                'Generating attack steps for asset %s which is of class %s.',",
     'assets are visited in hash order of their names'),
    ('analysis_writes_model', ['C16'], AP,
     """            node.is_viable = node.defense_status != 1.0
        case 'or':""",
     """            node.is_viable = node.defense_status != 1.0
            if node.asset is not None and not node.is_viable:
                setattr(node.asset, node.name, 1)
        case 'or':""", 'the analysis normalises the defense value on the model asset (1.0 -> 1): benign for _to_dict'),
    ('attach_marks_model_attacker', ['C16'], AG,
     """            attacker.entry_points = list(attacker.reached_attack_steps)""",
     """            attacker.entry_points = list(attacker.reached_attack_steps)
            if not attacker.entry_points:
                attacker_info.name = attacker_info.name + ' (no entry points)'""",
     'attach_attackers renames model attackers that have no valid entry point'),
]

MUTANTS += [
    ('compiler_skips_unreadable_include', ['C17'], MV,
     """                    included_file = self.compiler.compile(value)
""",
     """                    try:
                        included_file = self.compiler.compile(value)
                    except OSError:
                        continue
""", 'an include that cannot be read is skipped instead of failing the compilation'),
]

# ---- more behaviour-preserving refactors ---------------------------------------------
EQUIVALENT += [
    ('equiv_children_prepended', ['C09', 'C10', 'C12', 'C13', 'C14', 'C16'], AG,
     "                    ag_node.children.append(target_node)\n                    target_node.parents.append(ag_node)",
     "                    ag_node.children.insert(0, target_node)\n                    target_node.parents.insert(0, ag_node)",
     'children / parents kept in another order'),
    ('equiv_load_assets_sorted', ['C07', 'C16', 'C18'], M,
     "        for asset_id, asset_object in serialized_object['assets'].items():",
     "        for asset_id, asset_object in sorted(serialized_object['assets'].items(), key=lambda kv: int(kv[0])):",
     'the native loader adds assets in id order'),
    ('equiv_node_dict_extra_key', ['C10', 'C14', 'C16', 'C19'], ND,
     "        if self.extras:\n            node_dict['extras'] = self.extras\n",
     "        if self.extras:\n            node_dict['extras'] = self.extras\n        node_dict['n_children'] = len(self.children)\n",
     'the serialised node carries an additional derived key'),
    ('equiv_attacker_id_exception_class', ['C09', 'C11'], AG,
     "            raise ValueError(f'Attacker index {attacker_id} already in use.')",
     "            raise KeyError(f'Attacker index {attacker_id} already in use.')",
     'another exception class'),
    ('equiv_prune_reversed', ['C13', 'C09'], AP,
     "    for node in list(graph.nodes):\n        if (node.type == 'or' or node.type == 'and') and \\",
     "    for node in reversed(list(graph.nodes)):\n        if (node.type == 'or' or node.type == 'and') and \\",
     'prune walks the node list backwards'),
    ('equiv_compiler_error_class', ['C17', 'C04'], CO,
     "        raise MalCompilerError(\n            f'{self.filename}:{line}:{column}: {msg}'\n        )",
     "        raise SyntaxError(\n            f'{self.filename}:{line}:{column}: {msg}'\n        )",
     'syntax errors reported with a builtin exception class'),
]

MUTANTS += [
    ('fixrev_assoc_membership', ['C05'], M,
     """                if not any(field_asset is asset for asset in self.assets):""",
     """                if False and not any(field_asset is asset for asset in self.assets):""",
     'revert 35d0000'),
]

MUTANTS += [
    ('fixrev_add_twice', ['C05'], M,
     """        if any(asset is model_asset for model_asset in self.assets):
            raise ValueError('Asset is already part of the model.')
""", "", 'revert 42afa54 (assets)'),
]

# ---- fault paths: errors must not be swallowed ---------------------------------------
MUTANTS += [
    ('save_json_swallows_oserror', ['C07', 'C10'], FU,
     """    with open(filename, 'w', encoding='utf-8') as f:
        json.dump(serialized_object, f, indent=4)""",
     """    try:
        with open(filename, 'w', encoding='utf-8') as f:
            json.dump(serialized_object, f, indent=4)
    except OSError as e:
        print(f'could not write {filename}: {e}')""", 'a failed JSON save is only reported on stdout'),
    ('save_yaml_swallows_close_error', ['C07'], FU,
     """    with open(filename, 'w', encoding='utf-8') as f:
        yaml.dump(serialized_object, f, Dumper=yaml.SafeDumper)""",
     """    f = open(filename, 'w', encoding='utf-8')
    yaml.dump(serialized_object, f, Dumper=yaml.SafeDumper)
    try:
        f.close()
    except OSError:
        pass""", 'an error at close() of a YAML save is ignored (the data may not be on disk)'),
    ('load_json_retries_as_empty', ['C07'], FU,
     """    with open(filename, 'r', encoding='utf-8') as file:
        object_dict = json.loads(file.read())
    return object_dict""",
     """    try:
        with open(filename, 'r', encoding='utf-8') as file:
            object_dict = json.loads(file.read())
    except OSError:
        object_dict = {'metadata': {'name': 'unreadable'}, 'assets': {}, 'attack_steps': {},
                       'attackers': {}}
    return object_dict""", 'an unreadable file loads as an empty model / graph'),
    ('neo_commit_error_swallowed', ['C19'], N4,
     """    subgraph = Subgraph(list(nodes.values()), rels)

    tx = g.begin()
    tx.create(subgraph)
    g.commit(tx)


def get_model(""",
     """    subgraph = Subgraph(list(nodes.values()), rels)

    tx = g.begin()
    tx.create(subgraph)
    try:
        g.commit(tx)
    except Exception as e:
        logger.error('commit failed: %s', e)


def get_model(""", 'ingest_model logs a failed commit and returns normally'),
    ('neo_delete_error_ignored', ['C19'], N4,
     """    g = Graph(uri=uri, user=username, password=password, name=dbname)
    if delete:
        g.delete_all()

    nodes = {}
    rels = []

    for asset in model.assets:""",
     """    g = Graph(uri=uri, user=username, password=password, name=dbname)
    if delete:
        try:
            g.delete_all()
        except Exception:
            logger.warning('could not clear the database, appending')

    nodes = {}
    rels = []

    for asset in model.assets:""", 'a failed delete_all is ignored: new content is appended to the old'),
]

MUTANTS += [
    ('updater_unreadable_file_is_empty_model', ['C18'], UP,
     """        with open(filename, 'r', encoding='utf-8') as model_file:
            model_dict = json.loads(model_file.read())
""",
     """        try:
            with open(filename, 'r', encoding='utf-8') as model_file:
                model_dict = json.loads(model_file.read())
        except OSError:
            model_dict = {'metadata': {'name': filename}, 'assets': {}}
""", 'the 0.0.39 loader turns an unreadable file into an empty model'),
]
