"""Reference attack graph (trivial inside).  Node handles are local to a graph."""
from __future__ import annotations

import copy


class RNode:
    __slots__ = ('h', 'id', 'name', 'type', 'asset', 'ttc', 'defense_status',
                 'existence_status', 'is_viable', 'is_necessary', 'tags', 'mitre', 'extras')

    def __init__(self, h, **kw):
        self.h = h
        self.id = kw.get('id')
        self.name = kw['name']
        self.type = kw['type']
        self.asset = kw.get('asset')            # asset *name* or None
        self.ttc = copy.deepcopy(kw.get('ttc'))
        self.defense_status = kw.get('defense_status')
        self.existence_status = kw.get('existence_status')
        self.is_viable = kw.get('is_viable', True)
        self.is_necessary = kw.get('is_necessary', True)
        self.tags = list(kw.get('tags') or [])
        self.mitre = kw.get('mitre')
        self.extras = copy.deepcopy(kw.get('extras') or {})

    @property
    def full_name(self):
        if self.asset is not None:
            return f'{self.asset}:{self.name}'
        return f'{self.id}:{self.name}'

    def clone(self):
        n = RNode(self.h, name=self.name, type=self.type)
        for k in self.__slots__:
            setattr(n, k, copy.deepcopy(getattr(self, k)))
        return n


class RAttacker:
    __slots__ = ('h', 'id', 'name', 'entry', 'reached')

    def __init__(self, h, name, id=None):
        self.h = h
        self.id = id
        self.name = name
        self.entry = []       # node handles (list, duplicates possible)
        self.reached = []     # node handles, no duplicates

    def clone(self):
        a = RAttacker(self.h, self.name, self.id)
        a.entry = list(self.entry)
        a.reached = list(self.reached)
        return a


class RefGraph:
    def __init__(self):
        self.nodes = {}         # handle -> RNode (live only)
        self.order = []         # storage order
        self.edges = []         # (parent handle, child handle), multiset
        self.attackers = {}
        self.attacker_order = []
        self.has_model = False
        self.removed_ids = []
        self.removed_names = []
        self.removed_attacker_ids = []

    def clone(self):
        g = RefGraph()
        g.nodes = {h: n.clone() for h, n in self.nodes.items()}
        g.order = list(self.order)
        g.edges = list(self.edges)
        g.attackers = {h: a.clone() for h, a in self.attackers.items()}
        g.attacker_order = list(self.attacker_order)
        g.has_model = self.has_model
        return g

    # --------------------------------------------------------------- queries
    def children(self, h):
        return [c for p, c in self.edges if p == h]

    def parents(self, h):
        return [p for p, c in self.edges if c == h]

    def ids(self):
        return {n.id for n in self.nodes.values()}

    def by_id(self, i):
        return next((h for h in self.order if self.nodes[h].id == i), None)

    def compromised_by(self, h):
        return [k for k in self.attacker_order if h in self.attackers[k].reached]

    # ------------------------------------------------------------- mutations
    def add_node(self, n: RNode):
        self.nodes[n.h] = n
        self.order.append(n.h)

    def link(self, p, c):
        self.edges.append((p, c))

    def remove_node(self, h):
        n = self.nodes.pop(h)
        self.order.remove(h)
        self.edges = [(p, c) for p, c in self.edges if p != h and c != h]
        for a in self.attackers.values():
            a.reached = [x for x in a.reached if x != h]
            a.entry = [x for x in a.entry if x != h]
        self.removed_ids.append(n.id)
        self.removed_names.append(n.full_name)

    def add_attacker(self, a: RAttacker):
        self.attackers[a.h] = a
        self.attacker_order.append(a.h)

    def remove_attacker(self, k):
        a = self.attackers.pop(k)
        self.attacker_order.remove(k)
        self.removed_attacker_ids.append(a.id)

    def compromise(self, k, h):
        a = self.attackers[k]
        if h not in a.reached:
            a.reached.append(h)

    def undo(self, k, h):
        a = self.attackers[k]
        if h in a.reached:
            a.reached.remove(h)

    # ----------------------------------------------------------- semantics
    @staticmethod
    def ttc_is_distribution(ttc):
        return bool(ttc) and 'name' in ttc and ttc['name'] not in ('Enabled', 'Disabled')

    def gfp_labels(self):
        """Greatest fixed point of the C08 equations: {handle: (viable, necessary)}."""
        via = {h: True for h in self.order}
        nec = {h: True for h in self.order}
        par = {h: self.parents(h) for h in self.order}

        def source(n):
            if n.type == 'defense':
                return n.defense_status != 1.0, n.defense_status != 0.0
            if n.type == 'exist':
                return bool(n.existence_status), not n.existence_status
            if n.type == 'notExist':
                return not n.existence_status, bool(n.existence_status)
            return None
        for h in self.order:
            s = source(self.nodes[h])
            if s:
                via[h], nec[h] = s
        changed = True
        while changed:
            changed = False
            for h in self.order:
                n = self.nodes[h]
                if n.type not in ('or', 'and') or not par[h]:
                    continue
                pv = [via[p] for p in par[h]]
                pn = [nec[p] or self.ttc_is_distribution(self.nodes[p].ttc) for p in par[h]]
                if n.type == 'or':
                    v, e = any(pv), all(pn)
                else:
                    v, e = all(pv), any(pn)
                # downward only (start from all-True): monotone, so this is the gfp
                v, e = via[h] and v, nec[h] and e
                if (v, e) != (via[h], nec[h]):
                    via[h], nec[h] = v, e
                    changed = True
        return {h: (via[h], nec[h]) for h in self.order}

    def traversable(self, h, k):
        n = self.nodes[h]
        if not n.is_viable:
            return False
        if n.type == 'or':
            return True
        if n.type == 'and':
            reached = set(self.attackers[k].reached)
            return all((not self.nodes[p].is_necessary) or p in reached
                       for p in self.parents(h))
        return False

    def attack_surface(self, k):
        out = []
        for h in self.attackers[k].reached:
            for c in self.children(h):
                if self.traversable(c, k) and c not in out:
                    out.append(c)
        return out

    # ---------------------------------------------------------- observation
    def observe(self):
        from .world_g import typed_keys
        nid = {h: self.nodes[h].id for h in self.order}
        aid = {k: self.attackers[k].id for k in self.attacker_order}
        nodes = []
        for h in self.order:
            n = self.nodes[h]
            nodes.append({
                'id': n.id, 'name': n.name, 'type': n.type,
                'asset': n.asset, 'ttc': n.ttc, 'defense_status': n.defense_status,
                'existence_status': n.existence_status, 'is_viable': n.is_viable,
                'is_necessary': n.is_necessary, 'tags': list(n.tags), 'mitre': n.mitre,
                'extras': typed_keys(n.extras),
                'children': sorted(nid[c] for c in self.children(h)),
                'parents': sorted(nid[p] for p in self.parents(h)),
                'compromised_by': sorted(aid[k] for k in self.compromised_by(h))})
        attackers = []
        for k in self.attacker_order:
            a = self.attackers[k]
            attackers.append({'id': a.id, 'name': a.name,
                              'entry': sorted(nid[h] for h in a.entry),
                              'reached': sorted(nid[h] for h in a.reached)})
        return {'nodes': sorted(nodes, key=lambda d: (d['id'] is None, d['id'], d['name'])),
                'attackers': sorted(attackers, key=lambda d: (d['id'] is None, d['id'], d['name']))}
