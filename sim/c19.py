"""C19: see world_m.py / fakeneo.py"""
from .world_m import ModelWorld as World, REAL, ASSUMPTIONS, new_run_for  # noqa: F401

RULE = ('one run = one language, one model, a seeded history of edits (as C05) and an in-process '
        'stand-in for the Neo4j server: ingest_model / ingest_attack_graph (delete true/false, two '
        'databases, repeated, in either order) at arbitrary points, get_model with a seeded row order, '
        'peer faults (connection refused, commit raises and stores nothing, delete_all raises). After '
        'every ingest the recorded database content is compared with the export computed from the '
        'reference model / the generated graph; every import is compared with the model that was '
        'exported. non-trivial = >=5 state-changing steps and >=1 successful ingest or import; '
        'distinct = distinct event-log digest')
STUB = ['py2neo.Graph replaced by sim/fakeneo.py (store per database, atomic commit, the two Cypher '
        'patterns get_model sends evaluated with seeded row order); py2neo Node / Relationship / '
        'Subgraph are real']
REAL = REAL + ['maltoolbox.ingestors.neo4j', 'py2neo data classes']
ASSUMPTIONS = ASSUMPTIONS + [
    'the stand-in\'s reading of the two Cypher patterns (all combinations of a-[r1]->b, b-[r2]->a with '
    'r1 != r2, DISTINCT, a.type not null); any other query is a harness error',
    'defenses, extras and attackers are not exported and not compared on import']


def new_run(rng, tier):
    return new_run_for('C19', rng, tier)
