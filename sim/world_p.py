"""World P (C16): one scenario (language, model, generate, attach, analyse,
serialise) executed several times - twice in one process, after other work in
the same process, through the file-based wrapper (.mar / .mal, .json / .yml),
and in fresh interpreters under other PYTHONHASHSEED values and cwd's.  All
executions must give the same serialized graph; generation and analysis must not
disturb the model or the language specification; two graphs built from one model
share no node.
"""
from __future__ import annotations

import contextlib
import copy
import hashlib
import io
import json
import os
import subprocess
import sys
import zipfile

from .engine import Violation, SetupRejected, Unresolvable, HarnessError
from .lang import Lang, canon, corpus, small_fixed_specs
from .world import BaseWorld, call, weighted
from . import findings, world_m, malprint, env as _env

RULE = ('one run = one scenario: a language (generator / corpus / coreLang) and a model built from '
        'recorded fault-free model ops, saved as files; 4-8 seeded executions of "load, generate, attach '
        'attackers, analyse, serialise": same process twice, after unrelated work in the process, '
        'through create_attack_graph from .mar or .mal and .json or .yml, and in fresh interpreters '
        'with other PYTHONHASHSEED values and other cwd\'s. sha256 of the canonical AttackGraph._to_dict() '
        'must agree across all executions; Model._to_dict() and the specification are compared before / '
        'after; two graphs from one model must be identity-disjoint and independent. non-trivial = the '
        'graph has >=1 edge, >=3 executions incl. >=1 fresh interpreter; distinct = distinct event-log digest')
REAL = ['maltoolbox.wrappers.create_attack_graph', 'maltoolbox.attackgraph.AttackGraph', 'analyzers.apriori',
        'maltoolbox.model.Model', 'maltoolbox.language.*', 'MalCompiler', 'zipfile', 'fresh CPython interpreters']
STUB = []
ASSUMPTIONS = [
    'graphs are compared through the canonical (key-sorted) JSON of AttackGraph._to_dict()',
    '.mal inputs are only used for languages whose print -> compile round trip was verified at world build (C04 is decided separately)',
    'scenarios avoid nothing: the model generator here is fault-free (valid ops only)',
]


def graph_digest(g) -> str:
    return hashlib.sha256(canon(g._to_dict()).encode()).hexdigest()


def new_run(rng, tier):
    spec, src = world_m.pick_language(rng, tier, p_corelang=0.02,
                                      gen_cfg={'expr_depth': 2, 'max_types': 4, 'composite_ttc': True})
    big = rng.random() < 0.2
    mcfg = {'prop': 'setup', 'guards': [], 'steps': rng.randint(14, 26) if big else rng.randint(3, 12),
            'n_models': 1, 'max_assets': 16 if big else 8,
            'odd_names': rng.random() < 0.3, 'p_invalid': 0.0, 'p_reuse': 0.3,
            'w': {'add_asset': 14 if big else 6, 'set_defense': 2, 'remove_asset': 1, 'add_assoc': 5,
                  'remove_assoc': 0, 'remove_from_assoc': 0, 'add_attacker': 2,
                  'remove_attacker': 0, 'add_ep': 3, 'remove_ep': 0, 'restart': 0,
                  'foreign': 0, 'set_extras': 1, 'set_assoc_extras': 0, 'legacy': 0,
                  'neo_ingest': 0, 'neo_import': 0, 'neo_ingest_graph': 0}}
    mdesc = {'spec': spec, 'source': src, 'model_names': ['model', 'm2']}
    ops = []
    try:
        mw = world_m.ModelWorld(mcfg, mdesc)
        try:
            for _ in range(mcfg['steps'] if src != 'corelang' else 4):
                op = mw.gen_op(rng)
                if op is None:
                    break
                # defense values as floats: a value given as the int 1 is serialised "1" by
                # a graph built from the model in memory and "1.0" after a save / load of the
                # model; that is a matter of number formatting, not of C16
                if op['op'] == 'set_defense':
                    op['value'] = float(op['value'])
                if op['op'] == 'add_asset':
                    op['defenses'] = {k: float(v) for k, v in (op.get('defenses') or {}).items()}
                ops.append(op)
                mw.apply(op)
        finally:
            mw.close()
    except (SetupRejected, Violation):
        pass
    cfg = {'prop': 'C16', 'guards': findings.active_guards('C16'), 'steps': rng.randint(4, 8),
           'mcfg': mcfg, 'p_child': 0.35 if tier == 'quick' else 0.45}
    return cfg, {'spec': spec, 'source': src, 'model_ops': ops}


class World(BaseWorld):
    def __init__(self, cfg, desc):
        super().__init__(cfg, desc)
        from maltoolbox.language import LanguageGraph, LanguageClassesFactory
        from maltoolbox.model import Model
        from maltoolbox.attackgraph import AttackGraph, Attacker
        from maltoolbox.attackgraph.analyzers import apriori
        from maltoolbox import wrappers
        self.Attacker_cls = Attacker
        self.LanguageGraph, self.LanguageClassesFactory = LanguageGraph, LanguageClassesFactory
        self.Model, self.AttackGraph, self.apriori, self.wrappers = Model, AttackGraph, apriori, wrappers
        self.S0 = canon(desc['spec'])
        self.executions = 0
        self.children = 0
        self.opt_digest = {}
        self.cwd0 = os.getcwd()
        os.makedirs(os.path.join(self.dir, 'tmp'), exist_ok=True)
        # the model, built once, saved to files
        self.mw = world_m.ModelWorld(dict(cfg['mcfg']), {'spec': desc['spec'],
                                                          'source': desc.get('source'),
                                                          'model_names': ['model', 'm2']})
        for op in desc.get('model_ops', []):
            try:
                self.mw.apply(op)
            except Unresolvable:
                continue
        self.model = self.mw.models[0]
        self.files = {}
        for fmt in ('json', 'yml'):
            p = self.path(f'model.{fmt}')
            o = call(self.model.save_to_file, p)
            if o.raised:
                raise SetupRejected('c16:model save:' + o.exc_name())
            self.files[fmt] = p
        # the same model as somebody else's tool (or an older release) wrote it: the
        # assets listed in another order than the toolbox writes them
        with open(self.files['json']) as f:
            doc = json.load(f)
        if isinstance(doc.get('assets'), dict) and len(doc['assets']) > 1:
            doc['assets'] = dict(reversed(list(doc['assets'].items())))
            self.count('probe:model_file_with_assets_in_another_order')
        self.files['shuf'] = self.path('model_foreign_order.json')
        with open(self.files['shuf'], 'w') as f:
            json.dump(doc, f, indent=1)
        self.spec_path = self.path('langspec.json')
        with open(self.spec_path, 'w') as f:
            json.dump(desc['spec'], f)
        self.mar = self.path('lang.mar')
        with zipfile.ZipFile(self.mar, 'w') as z:
            z.writestr('langspec.json', json.dumps(desc['spec']))
            z.writestr('icons/', '')
        # a decoy: another revision of the language under the same id and version (every
        # defense default flipped, one more asset type); some children meet it first
        decoy = copy.deepcopy(desc['spec'])
        for a in decoy['assets']:
            for st in a['attackSteps']:
                if st['type'] == 'defense':
                    on = isinstance(st.get('ttc'), dict) and st['ttc'].get('name') == 'Enabled'
                    st['ttc'] = {'type': 'function', 'name': 'Disabled' if on else 'Enabled',
                                 'arguments': []}
        self.decoy_path = self.path('decoy.json')
        with open(self.decoy_path, 'w') as f:
            json.dump(decoy, f)
        # .mal only if print -> compile gives the specification back
        self.mal = None
        d = self.path('malsrc')
        os.makedirs(d, exist_ok=True)
        malp = os.path.join(d, 'lang.mal')
        with open(malp, 'w', encoding='utf-8') as f:
            f.write(malprint.single_file(desc['spec']))
        from maltoolbox.language.compiler import MalCompiler
        import contextlib
        import io
        with contextlib.redirect_stderr(io.StringIO()):
            o = call(MalCompiler().compile, malp)
        if not o.raised:
            from .world_s import _norm_top
            if _norm_top(o.value) == _norm_top(desc['spec']):
                self.mal = malp
        if desc.get('source') == 'corelang':
            self.count('probe:corelang')
        # reference executions (API path), one per model file: the asset order of a
        # .yml file (sorted by id) may differ from the .json file's, and node ids follow it
        self.ref_digest = {}
        for fmt in ('json', 'yml', 'shuf'):
            d, n = self._exec_api(fmt)
            if d is None:
                raise SetupRejected('generate:' + str(n))
            self.ref_digest[fmt] = d
            self.nedges = n
        # When the assets were added in ascending id order, a .json file (insertion
        # order), a .yml file (sorted by id) and the model in memory all list them in the
        # same order: then all three must give the very same graph.
        ids = [self.mw.refs[0].assets[h].id for h in self.mw.refs[0].order]
        kids = [self.mw.refs[0].attackers[k].id for k in self.mw.refs[0].attacker_order]
        self.same_across_formats = ids == sorted(ids) and kids == sorted(kids)
        if self.same_across_formats:
            self.count('oracle:C16.same')
            if len(ids) > 10:
                self.count('probe:more_than_ten_assets_in_id_order')
            if self.ref_digest['json'] != self.ref_digest['yml']:
                raise Violation('C16.same', 'the same model (assets in ascending id order) gives '
                                            'different graphs when loaded from its .json and from '
                                            'its .yml file')
            o = call(self._pipeline, self.mw.lg, self.model)
            if not o.raised and graph_digest(o.value) != self.ref_digest['json']:
                raise Violation('C16.same', 'the model in memory and the same model loaded from its '
                                            'file give different graphs')
        # a second .mal path that first held another language (same path, other content)
        self.mal2 = None
        if self.mal is not None:
            p2 = os.path.join(self.path('malsrc'), 'reused.mal')
            with open(p2, 'w', encoding='utf-8') as f:
                f.write(malprint.single_file(small_fixed_specs()[1]))
            with contextlib.redirect_stderr(io.StringIO()):
                call(self.LanguageGraph.from_mal_spec, p2)      # the decoy is compiled once
            with open(self.mal, encoding='utf-8') as f:
                real_text = f.read()
            with open(p2, 'w', encoding='utf-8') as f:
                f.write(real_text)                               # same path, now the real language
            self.mal2 = p2

    def close(self):
        try:
            os.chdir(self.cwd0)
            self.mw.close()
        finally:
            super().close()

    # ------------------------------------------------------------ executions
    def _fresh_inputs(self, fmt, spec_obj=None):
        """A new language graph + factory + the model loaded from its file.  These all worked
        for the first execution of the scenario: a failure later in the same process is a
        dependence on history."""
        spec_obj = copy.deepcopy(self.desc['spec']) if spec_obj is None else spec_obj

        def build():
            lg = self.LanguageGraph(spec_obj)
            fac = self.LanguageClassesFactory(lg)
            return lg, fac, self.Model.load_from_file(self.files[fmt], fac)
        o = call(build)
        if o.raised:
            raise Violation('C16.same', f'building the language graph / classes / model (*.{fmt}) failed '
                                        f'although it succeeded for the first execution of this '
                                        f'scenario in this process: {o.exc!r}')
        lg, fac, model = o.value
        return lg, fac, model, spec_obj

    def _pipeline(self, lg, model, attach=True, calc=True):
        g = self.AttackGraph(lg, model)
        if attach:
            g.attach_attackers()
        if calc:
            self.apriori.calculate_viability_and_necessity(g)
        return g

    def _ref_for_options(self, fmt, attach, calc):
        """Digest of the direct-API execution with the same two options."""
        key = (fmt, bool(attach), bool(calc))
        if key == (fmt, True, True):
            return self.ref_digest[fmt]
        if key not in self.opt_digest:
            lg, fac, model, _ = self._fresh_inputs(fmt)
            o = call(self._pipeline, lg, model, attach, calc)
            self.opt_digest[key] = None if o.raised else graph_digest(o.value)
        return self.opt_digest[key]

    def _exec_api(self, fmt, spec=None, keep=False):
        spec_obj = copy.deepcopy(self.desc['spec']) if spec is None else spec
        lf = call(lambda: (lambda lg_: (lg_, self.LanguageClassesFactory(lg_)))(self.LanguageGraph(spec_obj)))
        if lf.raised:
            return None, 'language graph / classes:' + lf.exc_name()
        lg, fac = lf.value
        lo = call(self.Model.load_from_file, self.files[fmt], fac)
        if lo.raised:
            return None, 'model load:' + lo.exc_name()
        model = lo.value
        o = call(self._pipeline, lg, model)
        if o.raised:
            return None, o.exc_name()
        g = o.value
        self.executions += 1
        if keep:
            return g, (lg, model, spec_obj)
        return graph_digest(g), sum(len(n.children) for n in g.nodes)

    def _same(self, digest, where, fmt='json'):
        self.count('oracle:C16.same')
        if digest != self.ref_digest[fmt]:
            raise Violation('C16.same', f'{where}: serialized graph differs from the first execution '
                                        f'of the same scenario ({digest[:12]} vs '
                                        f'{self.ref_digest[fmt][:12]})')

    # -------------------------------------------------------------------- ops
    def gen_op(self, rng):
        kinds = [(3, 'twice'), (2, 'interleaved'), (2, 'regenerated'), (2, 'inputs'),
                 (2, 'other_work'), (3, 'wrapper'), (3, 'edited'), (2, 'log_level')]
        kind = weighted(rng, kinds)
        if rng.random() < self.cfg.get('p_child', 0.3):
            kind = 'child'
        if kind in ('wrapper', 'child'):
            via = weighted(rng, [(3, 'api'), (3, 'wrapper_mar'), (3, 'wrapper_mal')])
            if kind == 'wrapper' and via == 'api':
                via = 'wrapper_mar'
            if via == 'wrapper_mal' and self.mal is None:
                via = 'wrapper_mar'
            op = {'op': kind, 'via': via, 'model_fmt': rng.choice(['json', 'yml', 'shuf']),
                  'cwd': rng.choice(['scratch', 'sub', 'root_of_tree'])}
            if kind == 'child':
                op['hashseed'] = rng.choice([0, 1, 2, rng.randrange(3, 2 ** 31)])
                op['decoy_first'] = rng.random() < 0.3
            elif rng.random() < 0.5:
                # the two options of the wrapper, set differently from their defaults
                op['attach'], op['calc'] = rng.choice([(False, True), (True, False), (False, False)])
            return op
        if kind == 'edited':
            return {'op': kind, 'model_fmt': rng.choice(['json', 'yml', 'shuf']),
                    'edits': [{'kind': rng.choice(['from_assoc', 'from_assoc', 'from_assoc', 'assoc',
                                                   'asset', 'defense', 'new_asset']),
                               'i': rng.randrange(1000), 'j': rng.randrange(1000)}
                              for _ in range(rng.choice([1, 1, 2, 3]))],
                    'graph_first': rng.random() < 0.85}
        op = {'op': kind, 'model_fmt': rng.choice(['json', 'yml', 'shuf'])}
        if kind == 'inputs' and rng.random() < 0.25:
            op['same_name'] = [rng.randrange(100), rng.randrange(100)]
        return op

    def apply(self, op):
        kind = op['op']
        self.count('op:' + kind)
        fn = getattr(self, 'do_' + kind, None)
        if fn is None:
            raise Unresolvable()
        out = fn(op)
        self.count('out:' + out)
        return [kind, out, '']

    def do_twice(self, op):
        g1, (lg, model, spec_obj) = self._exec_api(op['model_fmt'], keep=True)
        if g1 is None:
            raise SetupRejected('generate:late')
        o = call(self._pipeline, lg, model)
        if o.raised:
            raise Violation('C16.same', f'the second generation from the same language graph and '
                                        f'model raised {o.exc!r}')
        g2 = o.value
        self._same(graph_digest(g1), 'generation from the reloaded model', op['model_fmt'])
        d2 = graph_digest(g2)
        # attach_attackers twice on one model object is part of the pipeline: same result expected
        self._same(d2, 'second generation in the same process from the same objects', op['model_fmt'])
        self.count('oracle:C16.no_shared_nodes')
        ids1 = {id(n) for n in g1.nodes}
        shared = [n.full_name for n in g2.nodes if id(n) in ids1]
        if shared:
            raise Violation('C16.no_shared_nodes', f'two graphs built from one model share node '
                                                   f'objects: {shared[:4]}')
        for n in g2.nodes:
            for c in list(n.children) + list(n.parents):
                if id(c) in ids1:
                    raise Violation('C16.no_shared_nodes', f'node {n.full_name} of the second graph '
                                                           f'references node {c.full_name} of the first')
        before = canon(g1._to_dict())
        for n in g2.nodes[:5]:
            n.is_viable = not n.is_viable
            n.tags.append('x') if isinstance(n.tags, list) else None
        if g2.nodes:
            g2.remove_node(g2.nodes[0])
        if canon(g1._to_dict()) != before:
            raise Violation('C16.no_shared_nodes', 'mutating the second graph changed the first one')
        self._inputs_unchanged(model, spec_obj, 'two generations + analysis')
        return 'ok'

    def do_interleaved(self, op):
        """Two graphs are generated from one model first, only then the attackers
        are attached and the analysis runs - on the first graph, then the second."""
        fmt = op['model_fmt']
        lg, fac, model, spec_obj = self._fresh_inputs(fmt)
        a, b = call(self.AttackGraph, lg, model), call(self.AttackGraph, lg, model)
        if a.raised or b.raised:
            raise SetupRejected('generate:late')
        g1, g2 = a.value, b.value
        for g, other, label in ((g1, g2, 'first'), (g2, g1, 'second')):
            o = call(g.attach_attackers)
            if o.raised:
                raise Violation('C16.same', f'attach_attackers on the {label} of two graphs raised {o.exc!r}')
            o = call(self.apriori.calculate_viability_and_necessity, g)
            if o.raised:
                raise Violation('C16.same', f'analysis of the {label} of two graphs raised {o.exc!r}')
            self.count('oracle:C16.no_shared_nodes')
            mine = {id(n) for n in g.nodes}
            for att in g.attackers:
                for n in list(att.reached_attack_steps) + list(att.entry_points):
                    if id(n) not in mine:
                        raise Violation('C16.no_shared_nodes',
                                        f'an attacker of the {label} graph holds node {n.full_name} '
                                        f'of another graph built from the same model')
            for n in other.nodes:
                for att in n.compromised_by:
                    if any(att is x for x in g.attackers) :
                        raise Violation('C16.no_shared_nodes',
                                        f'node {n.full_name} of the other graph is compromised by an '
                                        f'attacker of the {label} graph')
        self.executions += 2
        self._same(graph_digest(g1), 'first of two graphs generated before attaching', fmt)
        self._same(graph_digest(g2), 'second of two graphs generated before attaching', fmt)
        self.count('probe:two_graphs_before_attach')
        self._inputs_unchanged(model, spec_obj, 'two interleaved generations')
        return 'ok'

    def do_regenerated(self, op):
        """generate + attach + analyse, then regenerate the same graph object and run the
        rest of the pipeline again: indistinguishable from the first time."""
        fmt = op['model_fmt']
        g, (lg, model, spec_obj) = self._exec_api(fmt, keep=True)
        if g is None:
            raise SetupRejected('generate:late')
        # somebody also registers an attacker by hand (entry points only) on this graph
        if g.nodes:
            call(g.add_attacker, self.Attacker_cls(name='manual', entry_points=[],
                                                   reached_attack_steps=[]),
                 entry_points=[g.nodes[0].id])
        o = call(g.regenerate_graph)
        if o.raised:
            raise Violation('C16.same', f'regenerate_graph raised {o.exc!r}')
        o = call(g.attach_attackers)
        if o.raised:
            raise Violation('C16.same', f'attach_attackers after regenerate raised {o.exc!r}')
        o = call(self.apriori.calculate_viability_and_necessity, g)
        if o.raised:
            raise Violation('C16.same', f'analysis after regenerate raised {o.exc!r}')
        self.executions += 1
        self._same(graph_digest(g), 'regenerated graph (generate, attach, regenerate, attach, analyse)', fmt)
        # ... and a brand-new graph built afterwards in the same process
        d, _ = self._exec_api(fmt)
        if d is not None:
            self._same(d, 'new graph after another graph was regenerated and given a manual attacker', fmt)
        self.count('probe:regenerated_then_attached')
        return 'ok'

    def _inputs_unchanged(self, model, spec_obj, where):
        self.count('oracle:C16.inputs')
        if canon(spec_obj) != self.S0:
            raise Violation('C16.inputs', f'{where}: the language specification was modified')

    def do_inputs(self, op):
        lg, fac, model, spec_obj = self._fresh_inputs(op['model_fmt'])
        if op.get('same_name') and len(model.assets) >= 2:
            # somebody renamed an asset after it was added: two assets now carry one name.
            # Not a model the generator has to make sense of - but it must leave it alone.
            i, j = (x % len(model.assets) for x in op['same_name'])
            if i != j:
                model.assets[j].name = str(model.assets[i].name)
                before = canon(model._to_dict())
                call(self._pipeline, lg, model)
                self.count('oracle:C16.inputs')
                self.count('probe:generated_from_a_model_with_one_name_twice')
                after = canon(model._to_dict())
                if after != before:
                    raise Violation('C16.inputs', 'Model._to_dict() differs after generation from a model '
                                                  'in which two assets carry one name\n'
                                    + world_m._obs_diff(json.loads(before), json.loads(after)))
                return 'ok'
        before = canon(model._to_dict())
        o = call(self._pipeline, lg, model)
        if o.raised:
            raise SetupRejected('generate:late')
        self.executions += 1
        self._same(graph_digest(o.value), 'generation (inputs check)', op['model_fmt'])
        self.count('oracle:C16.inputs')
        after = canon(model._to_dict())
        if after != before:
            raise Violation('C16.inputs', 'Model._to_dict() differs after generation + attach + '
                                          'analysis\n' + world_m._obs_diff(json.loads(before),
                                                                           json.loads(after)))
        self._inputs_unchanged(model, spec_obj, 'generation + analysis')
        # the model must still save to the same content
        p = self.fresh_path('.json')
        s = call(model.save_to_file, p)
        if s.raised:
            raise Violation('C16.inputs', f'the model cannot be saved after graph generation: {s.exc!r}')
        with open(p) as f1, open(self.files['json']) as f2:
            if canon(json.load(f1)) != canon(json.load(f2)):
                raise Violation('C16.inputs', 'the model saves to different content after graph generation')
        os.remove(p)
        return 'ok'

    def do_other_work(self, op):
        # unrelated work in the same process: another language, other graphs, a YAML save
        def other_work():
            other = small_fixed_specs()[1]
            lg2 = self.LanguageGraph(copy.deepcopy(other))
            fac2 = self.LanguageClassesFactory(lg2)
            m2 = self.Model('other', fac2)
            a = fac2.ns.Host(name='h1')
            m2.add_asset(a)
            b = fac2.ns.App(name='app1')
            m2.add_asset(b)
            self.AttackGraph(lg2, m2)
            m2.save_to_file(self.fresh_path('.yml'))
        o = call(other_work)
        if o.raised:
            # the fixed little language works in a fresh process (self-test of the harness)
            raise Violation('C16.same', f'work with another language fails in a process that '
                                        f'generated this scenario before: {o.exc!r}')
        d, _ = self._exec_api(op['model_fmt'])
        if d is None:
            raise SetupRejected('generate:late')
        self._same(d, 'generation after unrelated work in the same process', op['model_fmt'])
        self.count('probe:after_other_work')
        return 'ok'

    def do_log_level(self, op):
        """The same scenario under the other log level of the toolbox (DEBUG if this run is
        at the default level, the default if this run is at DEBUG): same graph."""
        was_debug = self._log_state is not None
        if was_debug:
            self._debug_logging_off()
        else:
            self._debug_logging_on()
        try:
            d, n = self._exec_api(op['model_fmt'])
        finally:
            if was_debug:
                self._debug_logging_on()
            else:
                self._debug_logging_off()
        if d is None:
            raise Violation('C16.same', f'generation with log level '
                                        f'{"default" if was_debug else "DEBUG"} failed ({n}) although '
                                        f'it succeeds with log level {"DEBUG" if was_debug else "default"}')
        self._same(d, f'generation with log level {"default" if was_debug else "DEBUG"} (first '
                      f'execution: {"DEBUG" if was_debug else "default"})', op['model_fmt'])
        self.count('probe:other_log_level')
        return 'ok'

    def _lang_file(self, via):
        # the name of a language file is the caller's business: the wrapper looks at the
        # content (zip archive or not), so upper-case or doubled extensions must do
        self._lang_n = getattr(self, '_lang_n', 0) + 1
        if via == 'wrapper_mar' and self._lang_n % 3 == 0:
            alt = self.path(['Lang Copy.MAR', 'lang.mar.orig', 'language'][(self._lang_n // 3) % 3])
            if not os.path.exists(alt):
                import shutil
                shutil.copy(self.mar, alt)
            self.count('probe:language_file_with_unusual_name')
            return alt
        if via == 'wrapper_mal':
            # every other time the path that held another language earlier in this process
            self._mal_toggle = not getattr(self, '_mal_toggle', False)
            if self._mal_toggle and self.mal2 is not None:
                self.count('probe:mal_path_that_held_another_language')
                return self.mal2
            return self.mal
        return self.mar

    def do_wrapper(self, op):
        via = op['via']
        if via == 'wrapper_mal' and self.mal is None:
            via = 'wrapper_mar'
        self._chdir(op.get('cwd'))
        try:
            import contextlib
            import io
            kw = {}
            if 'attach' in op:
                kw = {'attach_attackers': op['attach'], 'calc_viability_and_necessity': op['calc']}
            with contextlib.redirect_stderr(io.StringIO()):
                o = call(self.wrappers.create_attack_graph, self._lang_file(via),
                         self.files[op['model_fmt']], **kw)
        finally:
            os.chdir(self.cwd0)
        what = f'create_attack_graph({via}, *.{op["model_fmt"]}' + \
            (f', attach_attackers={op["attach"]}, calc_viability_and_necessity={op["calc"]})' if kw else ')')
        if o.raised:
            raise Violation('C16.same', f'{what} raised {o.exc!r} although the API path succeeds')
        self.executions += 1
        if kw:
            exp = self._ref_for_options(op['model_fmt'], op['attach'], op['calc'])
            if exp is None:
                raise SetupRejected('generate:options')
            self.count('oracle:C16.same')
            self.count('probe:wrapper_options_not_default')
            if graph_digest(o.value) != exp:
                raise Violation('C16.same', f'{what}: serialized graph differs from the direct API '
                                            f'(generate{", attach" if op["attach"] else ""}'
                                            f'{", analyse" if op["calc"] else ""}) on the same files')
        else:
            self._same(graph_digest(o.value), what, op['model_fmt'])
        self.count('probe:' + via)
        return 'ok'

    def do_edited(self, op):
        """A graph is generated, the model is edited through the Model API, a graph is
        generated again from the same objects.  The edited model is saved; a fresh language
        graph + the saved model must give the very same graph."""
        fmt = op['model_fmt']
        lg, fac, model, spec_obj = self._fresh_inputs(fmt)
        if op.get('graph_first', True):
            o = call(self._pipeline, lg, model)
            if o.raised:
                raise SetupRejected('generate:late')
        done = []
        for e in op.get('edits', []):
            kind, i, j = e['kind'], e['i'], e['j']
            if kind in ('from_assoc', 'assoc') and model.associations:
                assoc = model.associations[i % len(model.associations)]
                if kind == 'assoc':
                    r = call(model.remove_association, assoc)
                else:
                    lf, rf = model.get_association_field_names(assoc)
                    sides = [list(getattr(assoc, lf)), list(getattr(assoc, rf))]
                    # prefer a side that keeps another member (the association stays)
                    sides.sort(key=lambda x: -len(x))
                    side = sides[0] if (len(sides[0]) > 1 or j % 4) else sides[1]
                    if len(side) > 1:
                        self.count('probe:edited_association_kept_with_fewer_members')
                    r = call(model.remove_asset_from_association, side[j % len(side)], assoc)
            elif kind == 'asset' and len(model.assets) > 1:
                r = call(model.remove_asset, model.assets[i % len(model.assets)])
            elif kind == 'defense' and model.assets:
                a = model.assets[i % len(model.assets)]
                defs = sorted(self.mw.L.defenses(type(a).__name__))
                if not defs:
                    continue
                r = call(setattr, a, defs[j % len(defs)], [0.0, 1.0, 0.5][j % 3])
            elif kind == 'new_asset' and model.assets:
                t = type(model.assets[i % len(model.assets)]).__name__
                r = call(lambda: model.add_asset(getattr(fac.ns, t)(name=f'extra{len(done)}')))
            else:
                continue
            if r.raised:
                raise SetupRejected('edit:' + r.exc_name())
            done.append(kind)
        if not done:
            return 'noop'
        a = call(self._pipeline, lg, model)
        p = self.fresh_path('.json')
        sv = call(model.save_to_file, p)
        if sv.raised:
            raise SetupRejected('edit:save:' + sv.exc_name())
        lg2 = None

        def load_saved():
            nonlocal lg2
            lg2 = self.LanguageGraph(copy.deepcopy(self.desc['spec']))
            return self.Model.load_from_file(p, self.LanguageClassesFactory(lg2))
        m2 = call(load_saved)
        if m2.raised:
            raise SetupRejected('edit:load:' + m2.exc_name())
        b = call(self._pipeline, lg2, m2.value)
        os.remove(p)
        self.executions += 2
        where = f'model edited ({", ".join(done)}) after a graph was generated from it'
        self.count('oracle:C16.same')
        if a.raised != b.raised:
            raise Violation('C16.same', f'{where}: generation in the same process '
                            f'{"raised " + repr(a.exc) if a.raised else "succeeds"}, generation from '
                            f'the saved model {"raised " + repr(b.exc) if b.raised else "succeeds"}')
        if a.raised:
            return 'both_refuse'
        if graph_digest(a.value) != graph_digest(b.value):
            da, db = a.value._to_dict(), b.value._to_dict()
            raise Violation('C16.same', f'{where}: the graph generated in the same process differs '
                            f'from the graph generated from the saved model\n'
                            + world_m._obs_diff(json.loads(canon(db)), json.loads(canon(da))))
        self.count('probe:generated_after_model_edit')
        self._inputs_unchanged(model, spec_obj, 'generation after a model edit')
        return 'ok'

    def _chdir(self, which):
        d = self.dir
        if which == 'sub':
            d = os.path.join(self.dir, 'cwd_sub')
        os.makedirs(os.path.join(d, 'tmp'), exist_ok=True)
        os.chdir(d)
        return d

    def do_child(self, op):
        via = op['via']
        if via == 'wrapper_mal' and self.mal is None:
            via = 'wrapper_mar'
        cwd = self._chdir(op.get('cwd'))
        os.chdir(self.cwd0)
        job = {'via': via, 'spec': self.spec_path, 'lang_file': self._lang_file(via),
               'model_file': self.files[op['model_fmt']], 'cwd': cwd}
        if op.get('decoy_first'):
            job['decoy_spec'] = self.decoy_path
            self.count('probe:child_met_another_revision_of_the_language_first')
        jp = self.fresh_path('.job.json')
        with open(jp, 'w') as f:
            json.dump(job, f)
        envv = dict(os.environ)
        envv['PYTHONHASHSEED'] = str(op.get('hashseed', 1))
        pr = subprocess.run([sys.executable, '-m', 'sim.child', 'gen_graph', jp],
                            cwd=_env.VERIF_DIR, env=envv, capture_output=True, text=True, timeout=300)
        line = next((ln for ln in pr.stdout.splitlines() if ln.startswith('CHILD ')), None)
        if line is None:
            raise HarnessError(f'child interpreter gave no result: {pr.stdout[-300:]} {pr.stderr[-1500:]}')
        res = json.loads(line[6:])
        if res.get('harness_error'):
            raise HarnessError('child: ' + res['harness_error'])
        self.children += 1
        self.executions += 1
        where = f'fresh interpreter (PYTHONHASHSEED={op.get("hashseed")}, {via}, *.{op["model_fmt"]}, cwd {op.get("cwd")})'
        if res.get('error'):
            raise Violation('C16.same', f'{where} failed: {res["error"]}')
        self._same(res['digest'], where, op['model_fmt'])
        self.count('probe:fresh_interpreter')
        self.count('probe:child_' + via)
        return 'ok'

    def nontrivial(self):
        return self.nedges > 0 and self.executions >= 3 and self.children >= 1
