"""Seeded simulation engine shared by all checks.

One integer (the run seed) decides everything in a run: configuration (swarm),
world description, every operation, every fault.  The op list that was executed
is recorded as data; replay executes a recorded op list with *no* PRNG.

Exit codes of a check: 0 = held, 1 = VIOLATION (reproduced + minimised, not a
listed known finding), 2 = HARNESS-ERROR.
"""
from __future__ import annotations

import collections
import faulthandler
import hashlib
import importlib
import json
import multiprocessing
import os
import random
import subprocess
import sys
import time
import traceback
from concurrent.futures import ProcessPoolExecutor, TimeoutError as FTimeout

from . import env

EXIT_OK, EXIT_VIOLATION, EXIT_HARNESS = 0, 1, 2


class Violation(Exception):
    """An oracle clause failed."""

    def __init__(self, clause: str, message: str):
        super().__init__(f'{clause}: {message}')
        self.clause = clause
        self.message = message


class SetupRejected(Exception):
    """The world could not be built for a reason that belongs to an unclaimed
    property or to the generator; counted, never a pass or a violation."""

    def __init__(self, cause: str):
        super().__init__(cause)
        self.cause = cause


class Unresolvable(Exception):
    """A recorded op refers to a handle that does not exist (any more);
    happens only while minimising / replaying an edited op list."""


class HarnessError(Exception):
    pass


def jdump(o) -> str:
    return json.dumps(o, sort_keys=True, default=repr, separators=(',', ':'))


def digest(o) -> str:
    return hashlib.sha256(jdump(o).encode()).hexdigest()[:16]


# ----------------------------------------------------------------------------
# one run
# ----------------------------------------------------------------------------

class RunResult:
    def __init__(self):
        self.seed = None
        self.cfg = None
        self.desc = None
        self.ops = []
        self.events = []            # (op-name, outcome-class, ref-digest)
        self.violation = None       # {'clause','message','step'}
        self.rejected = None        # cause
        self.stats = collections.Counter()
        self.nontrivial = False
        self.log_digest = ''
        self.steps = 0

    def summary(self, with_ops=False) -> dict:
        d = {'seed': self.seed, 'violation': self.violation,
             'rejected': self.rejected, 'stats': dict(self.stats),
             'nontrivial': self.nontrivial, 'log_digest': self.log_digest,
             'steps': self.steps, 'nops': len(self.ops)}
        # 1-in-16 sample of the reference-state digests reached (for a distinct-state estimate)
        d['state_sample'] = sorted({e[3] for e in self.events
                                    if len(e) > 3 and isinstance(e[3], str) and e[3][:1] == '0'})
        if with_ops or self.violation:
            d.update(cfg=self.cfg, desc=self.desc, ops=self.ops)
        return d


def execute(mod, cfg, desc, ops=None, rng=None, seed=None) -> RunResult:
    """Run one simulation.  ops given -> replay (no PRNG); else generate."""
    res = RunResult()
    res.seed, res.cfg, res.desc = seed, cfg, desc
    world = None
    try:
        try:
            world = mod.World(cfg, desc)
        except SetupRejected as r:
            res.rejected = r.cause
            res.log_digest = digest(['rejected', r.cause])
            return res
        except Violation as v:
            res.violation = {'clause': v.clause, 'message': v.message[:2000], 'step': 0}
            res.log_digest = digest(['violation@setup', res.violation])
            return res
        try:
            if ops is None:
                for _ in range(cfg.get('steps', 30)):
                    op = world.gen_op(rng)
                    if op is None:
                        break
                    res.ops.append(op)
                    ev = world.apply(op)
                    res.events.append([digest(op)] + list(ev))
                    res.steps += 1
            else:
                for op in ops:
                    res.ops.append(op)
                    try:
                        ev = world.apply(op)
                    except Unresolvable:
                        res.ops.pop()
                        continue
                    res.events.append([digest(op)] + list(ev))
                    res.steps += 1
            world.finish()
        except Violation as v:
            res.violation = {'clause': v.clause, 'message': v.message[:2000],
                             'step': res.steps}
        except SetupRejected as r:
            # a world may discover late that it cannot go on (e.g. attack graph
            # generation, governed by an unclaimed property, raised)
            res.rejected = r.cause
        res.stats = collections.Counter(world.stats)
        res.nontrivial = bool(world.nontrivial()) and not res.rejected
        res.log_digest = digest([res.events, res.violation, res.rejected])
        return res
    finally:
        if world is not None:
            try:
                world.close()
            except Exception:       # noqa: BLE001
                pass


def run_seed(mod, seed: int, tier: str) -> RunResult:
    rng = random.Random(seed)
    cfg, desc = mod.new_run(rng, tier)
    # a configuration knob of the whole process, from a generator of its own (derived from
    # the same seed) so that it does not shift the draws of the run: the toolbox's log level
    cfg.setdefault('debug_log', random.Random(seed * 7919 + 17).random() < 0.1)
    return execute(mod, cfg, desc, ops=None, rng=rng, seed=seed)


# ----------------------------------------------------------------------------
# batch (fork pool)
# ----------------------------------------------------------------------------

_worker_mod = None


def _worker_init(modname, idx_base):
    global _worker_mod
    faulthandler.enable()
    ident = multiprocessing.current_process()._identity
    sub = f'w{ident[0] if ident else 0}'
    env.enter_scratch(sub)
    env.import_toolbox()
    _worker_mod = importlib.import_module(modname)
    random.seed(0)          # nobody should use the global PRNG; pin it anyway


def _run_chunk_here(seeds, tier, per_run_timeout):
    out = []
    for i, s in enumerate(seeds):
        faulthandler.dump_traceback_later(per_run_timeout, exit=True)
        try:
            r = run_seed(_worker_mod, s, tier)
            d = r.summary()
            d['chunk_before'] = list(seeds[:i])
            out.append(d)
        except BaseException as e:      # noqa: BLE001  harness error
            out.append({'seed': s, 'harness_error':
                        ''.join(traceback.format_exception(e))[-4000:]})
        finally:
            faulthandler.cancel_dump_traceback_later()
    return out


def _worker_chunk(args):
    """Run one chunk of seeds in a *forked child of the worker*: every chunk
    starts from the same pristine post-import process state, so that anything a
    run leaves behind in process-global state can only reach later runs of the
    same chunk - and the chunk prefix is then a complete, replayable history."""
    import pickle
    seeds, tier, per_run_timeout = args
    r, w = os.pipe()
    pid = os.fork()
    if pid == 0:
        code = 0
        try:
            os.close(r)
            out = _run_chunk_here(seeds, tier, per_run_timeout)
            data = pickle.dumps(out)
            with os.fdopen(w, 'wb') as f:
                f.write(data)
        except BaseException:           # noqa: BLE001
            traceback.print_exc()
            code = 3
        finally:
            os._exit(code)
    os.close(w)
    with os.fdopen(r, 'rb') as f:
        data = f.read()
    _, status = os.waitpid(pid, 0)
    if not data:
        return [{'seed': seeds[0], 'harness_error':
                 f'chunk child died (status {status}) while running seeds {seeds[0]}..{seeds[-1]}'}]
    return pickle.loads(data)


def run_batch(modname, seeds, tier, workers=None, chunk=25, per_run_timeout=120,
              stop_on_violation=True, wall_budget=None):
    """Yield run summaries.  Raises HarnessError on dead / stuck workers."""
    workers = workers or int(os.environ.get('VERIF_WORKERS', os.cpu_count() or 4))
    ctx = multiprocessing.get_context('fork')
    chunks = [seeds[i:i + chunk] for i in range(0, len(seeds), chunk)]
    t0 = time.time()
    results = []
    ex = ProcessPoolExecutor(max_workers=workers, mp_context=ctx,
                             initializer=_worker_init, initargs=(modname, 0))
    try:
        futs = [ex.submit(_worker_chunk, (c, tier, per_run_timeout)) for c in chunks]
        stop = False
        for f in futs:
            if stop:
                f.cancel()
                continue
            try:
                part = f.result(timeout=per_run_timeout * chunk + 60)
            except FTimeout as e:
                raise HarnessError('worker timed out') from e
            except Exception as e:      # BrokenProcessPool etc.
                raise HarnessError(f'worker died: {e!r}') from e
            results.extend(part)
            if stop_on_violation and any(r.get('violation') or r.get('harness_error')
                                         for r in part):
                stop = True
            if wall_budget and time.time() - t0 > wall_budget:
                stop = True
    finally:
        ex.shutdown(wait=True, cancel_futures=True)
    return results


# ----------------------------------------------------------------------------
# pristine children
# ----------------------------------------------------------------------------

def forked(fn, *args, timeout=300):
    """Run fn(*args) in a forked child (same pristine post-import state every
    time) and return its result; what the call leaves behind in process-global
    state dies with the child."""
    import pickle
    r, w = os.pipe()
    pid = os.fork()
    if pid == 0:
        code = 0
        try:
            os.close(r)
            faulthandler.dump_traceback_later(timeout, exit=True)
            data = pickle.dumps(('ok', fn(*args)))
        except BaseException as e:      # noqa: BLE001
            data = pickle.dumps(('err', ''.join(traceback.format_exception(e))[-3000:]))
        try:
            with os.fdopen(w, 'wb') as f:
                f.write(data)
        finally:
            os._exit(code)
    os.close(w)
    with os.fdopen(r, 'rb') as f:
        data = f.read()
    os.waitpid(pid, 0)
    if not data:
        raise HarnessError('forked child died without a result')
    kind, val = pickle.loads(data)
    if kind == 'err':
        raise HarnessError('forked child failed:\n' + val)
    return val


def _replay_summary(doc):
    r = replay_doc(doc)
    return {'violation': r.violation, 'ops': r.ops, 'rejected': r.rejected,
            'log_digest': r.log_digest, 'steps': r.steps}


def regenerate_runs(modname, seeds, tier):
    """(cfg, desc, ops) of the given seeds, executed in order in one process."""
    mod = importlib.import_module(modname)
    out = []
    for s in seeds:
        r = run_seed(mod, s, tier)
        out.append({'seed': s, 'cfg': r.cfg, 'desc': r.desc, 'ops': r.ops})
    return out


# ----------------------------------------------------------------------------
# minimisation (ddmin over prelude runs and over the op list, then per-op
# simplification); every candidate is executed in a pristine forked child
# ----------------------------------------------------------------------------

def _ddmin(items, test):
    """Classic ddmin; test(list) -> truthy if the candidate still fails."""
    n = 2
    while len(items) >= 2:
        size = max(1, len(items) // n)
        reduced = False
        for start in range(0, len(items), size):
            cand = items[:start] + items[start + size:]
            if test(cand):
                items = cand
                n = max(n - 1, 2)
                reduced = True
                break
        if not reduced:
            if size == 1:
                break
            n = min(len(items), n * 2)
    if len(items) == 1 and test([]):
        items = []
    return items


def minimise(doc, clause, budget=400):
    """doc: {'module','cfg','desc','ops','prelude'}.  Returns (doc, calls) or None."""
    calls = [0]
    mod = importlib.import_module(doc['module'])

    def fails(cand_doc):
        if calls[0] >= budget:
            return None
        calls[0] += 1
        try:
            r = forked(_replay_summary, cand_doc)
        except HarnessError:
            return None
        if r['violation'] and r['violation']['clause'] == clause:
            return r
        return None

    base = fails(doc)
    if base is None:
        return None
    doc = dict(doc)
    doc['ops'] = list(base['ops'])
    # 1. earlier runs of the process
    if doc.get('prelude'):
        doc['prelude'] = _ddmin(list(doc['prelude']),
                                lambda c: fails(dict(doc, prelude=c)) is not None)
    # 2. ops of the failing run
    def test_ops(c):
        r = fails(dict(doc, ops=c))
        return r is not None
    doc['ops'] = _ddmin(list(doc['ops']), test_ops)
    # 3. ops of the remaining prelude runs
    for i in range(len(doc.get('prelude', []))):
        def test_pre(c, i=i):
            pre = list(doc['prelude'])
            pre[i] = dict(pre[i], ops=c)
            return fails(dict(doc, prelude=pre)) is not None
        newops = _ddmin(list(doc['prelude'][i]['ops']), test_pre)
        pre = list(doc['prelude'])
        pre[i] = dict(pre[i], ops=newops)
        doc['prelude'] = pre
    # 4. per-op simplification offered by the world module
    simp = getattr(mod, 'simplify_op', None)
    if simp:
        changed = True
        while changed and calls[0] < budget:
            changed = False
            for i, op in enumerate(doc['ops']):
                for cand_op in simp(op):
                    cand = doc['ops'][:i] + [cand_op] + doc['ops'][i + 1:]
                    if fails(dict(doc, ops=cand)) is not None:
                        doc['ops'] = cand
                        changed = True
                        break
    return doc, calls[0]


# ----------------------------------------------------------------------------
# replay files
# ----------------------------------------------------------------------------

def write_replay(path, doc):
    os.makedirs(os.path.dirname(path), exist_ok=True)
    with open(path, 'w') as f:
        json.dump(doc, f, indent=1, sort_keys=True, default=repr)
    return path


def replay_doc(doc) -> RunResult:
    mod = importlib.import_module(doc['module'])
    for pre in doc.get('prelude', []):
        # earlier runs of the same process: executed for their side effects only
        try:
            execute(mod, pre['cfg'], pre['desc'], ops=pre['ops'], seed=pre.get('seed'))
        except Exception:       # noqa: BLE001
            pass
    return execute(mod, doc['cfg'], doc['desc'], ops=doc['ops'], seed=doc.get('seed'))


def replay_file(path) -> RunResult:
    with open(path) as f:
        doc = json.load(f)
    return replay_doc(doc)


def replay_in_fresh_process(path, hashseed='0'):
    """Replay in a fresh interpreter; returns the parsed JSON line it prints."""
    envv = dict(os.environ)
    envv['PYTHONHASHSEED'] = hashseed
    p = subprocess.run([sys.executable, '-m', 'sim.cli', '--replay-json', path],
                       cwd=env.VERIF_DIR, env=envv, capture_output=True, text=True,
                       timeout=600)
    for line in p.stdout.splitlines():
        if line.startswith('REPLAY-RESULT '):
            return json.loads(line[len('REPLAY-RESULT '):])
    raise HarnessError(f'replay subprocess gave no result: rc={p.returncode} '
                       f'{p.stdout[-500:]} {p.stderr[-2000:]}')
