"""Seeded simulation engine shared by all checks.

One integer (the run seed) decides everything in a run: configuration (swarm),
world description, every operation, every fault.  The op list that was executed
is recorded as data; replay executes a recorded op list with *no* PRNG.

Exit codes of a check: 0 = held, 1 = VIOLATION (reproduced + minimised, not a
listed known finding), 2 = HARNESS-ERROR.
"""
from __future__ import annotations

import collections
import faulthandler
import hashlib
import importlib
import json
import multiprocessing
import os
import random
import subprocess
import sys
import time
import traceback
from concurrent.futures import ProcessPoolExecutor, TimeoutError as FTimeout

from . import env

EXIT_OK, EXIT_VIOLATION, EXIT_HARNESS = 0, 1, 2


class Violation(Exception):
    """An oracle clause failed."""

    def __init__(self, clause: str, message: str):
        super().__init__(f'{clause}: {message}')
        self.clause = clause
        self.message = message


class SetupRejected(Exception):
    """The world could not be built for a reason that belongs to an unclaimed
    property or to the generator; counted, never a pass or a violation."""

    def __init__(self, cause: str):
        super().__init__(cause)
        self.cause = cause


class Unresolvable(Exception):
    """A recorded op refers to a handle that does not exist (any more);
    happens only while minimising / replaying an edited op list."""


class HarnessError(Exception):
    pass


def jdump(o) -> str:
    return json.dumps(o, sort_keys=True, default=repr, separators=(',', ':'))


def digest(o) -> str:
    return hashlib.sha256(jdump(o).encode()).hexdigest()[:16]


# ----------------------------------------------------------------------------
# one run
# ----------------------------------------------------------------------------

class RunResult:
    def __init__(self):
        self.seed = None
        self.cfg = None
        self.desc = None
        self.ops = []
        self.events = []            # (op-name, outcome-class, ref-digest)
        self.violation = None       # {'clause','message','step'}
        self.rejected = None        # cause
        self.stats = collections.Counter()
        self.nontrivial = False
        self.log_digest = ''
        self.steps = 0

    def summary(self, with_ops=False) -> dict:
        d = {'seed': self.seed, 'violation': self.violation,
             'rejected': self.rejected, 'stats': dict(self.stats),
             'nontrivial': self.nontrivial, 'log_digest': self.log_digest,
             'steps': self.steps, 'nops': len(self.ops)}
        if with_ops or self.violation:
            d.update(cfg=self.cfg, desc=self.desc, ops=self.ops)
        return d


def execute(mod, cfg, desc, ops=None, rng=None, seed=None) -> RunResult:
    """Run one simulation.  ops given -> replay (no PRNG); else generate."""
    res = RunResult()
    res.seed, res.cfg, res.desc = seed, cfg, desc
    world = None
    try:
        try:
            world = mod.World(cfg, desc)
        except SetupRejected as r:
            res.rejected = r.cause
            res.log_digest = digest(['rejected', r.cause])
            return res
        except Violation as v:
            res.violation = {'clause': v.clause, 'message': v.message[:2000], 'step': 0}
            res.log_digest = digest(['violation@setup', res.violation])
            return res
        try:
            if ops is None:
                for _ in range(cfg.get('steps', 30)):
                    op = world.gen_op(rng)
                    if op is None:
                        break
                    res.ops.append(op)
                    ev = world.apply(op)
                    res.events.append(ev)
                    res.steps += 1
            else:
                for op in ops:
                    res.ops.append(op)
                    try:
                        ev = world.apply(op)
                    except Unresolvable:
                        res.ops.pop()
                        continue
                    res.events.append(ev)
                    res.steps += 1
            world.finish()
        except Violation as v:
            res.violation = {'clause': v.clause, 'message': v.message[:2000],
                             'step': res.steps}
        except SetupRejected as r:
            # a world may discover late that it cannot go on (e.g. attack graph
            # generation, governed by an unclaimed property, raised)
            res.rejected = r.cause
        res.stats = collections.Counter(world.stats)
        res.nontrivial = bool(world.nontrivial()) and not res.rejected
        res.log_digest = digest([res.events, res.violation, res.rejected])
        return res
    finally:
        if world is not None:
            try:
                world.close()
            except Exception:       # noqa: BLE001
                pass


def run_seed(mod, seed: int, tier: str) -> RunResult:
    rng = random.Random(seed)
    cfg, desc = mod.new_run(rng, tier)
    return execute(mod, cfg, desc, ops=None, rng=rng, seed=seed)


# ----------------------------------------------------------------------------
# batch (fork pool)
# ----------------------------------------------------------------------------

_worker_mod = None


def _worker_init(modname, idx_base):
    global _worker_mod
    faulthandler.enable()
    ident = multiprocessing.current_process()._identity
    sub = f'w{ident[0] if ident else 0}'
    env.enter_scratch(sub)
    env.import_toolbox()
    _worker_mod = importlib.import_module(modname)
    random.seed(0)          # nobody should use the global PRNG; pin it anyway


def _worker_chunk(args):
    seeds, tier, per_run_timeout = args
    out = []
    for s in seeds:
        faulthandler.dump_traceback_later(per_run_timeout, exit=True)
        try:
            r = run_seed(_worker_mod, s, tier)
            out.append(r.summary())
        except BaseException as e:      # noqa: BLE001  harness error
            out.append({'seed': s, 'harness_error':
                        ''.join(traceback.format_exception(e))[-4000:]})
        finally:
            faulthandler.cancel_dump_traceback_later()
    return out


def run_batch(modname, seeds, tier, workers=None, chunk=25, per_run_timeout=120,
              stop_on_violation=True, wall_budget=None):
    """Yield run summaries.  Raises HarnessError on dead / stuck workers."""
    workers = workers or int(os.environ.get('VERIF_WORKERS', os.cpu_count() or 4))
    ctx = multiprocessing.get_context('fork')
    chunks = [seeds[i:i + chunk] for i in range(0, len(seeds), chunk)]
    t0 = time.time()
    results = []
    ex = ProcessPoolExecutor(max_workers=workers, mp_context=ctx,
                             initializer=_worker_init, initargs=(modname, 0))
    try:
        futs = [ex.submit(_worker_chunk, (c, tier, per_run_timeout)) for c in chunks]
        stop = False
        for f in futs:
            if stop:
                f.cancel()
                continue
            try:
                part = f.result(timeout=per_run_timeout * chunk + 60)
            except FTimeout as e:
                raise HarnessError('worker timed out') from e
            except Exception as e:      # BrokenProcessPool etc.
                raise HarnessError(f'worker died: {e!r}') from e
            results.extend(part)
            if stop_on_violation and any(r.get('violation') or r.get('harness_error')
                                         for r in part):
                stop = True
            if wall_budget and time.time() - t0 > wall_budget:
                stop = True
    finally:
        ex.shutdown(wait=True, cancel_futures=True)
    return results


# ----------------------------------------------------------------------------
# minimisation (ddmin over the op list, then per-op simplification)
# ----------------------------------------------------------------------------

def _fails_same(mod, cfg, desc, ops, clause):
    try:
        r = execute(mod, cfg, desc, ops=ops)
    except Exception:       # noqa: BLE001  harness trouble on an edited list
        return None
    if r.violation and r.violation['clause'] == clause:
        return r
    return None


def minimise(mod, cfg, desc, ops, clause, budget=400):
    """Return (cfg, desc, ops) minimal w.r.t. deletion of ops (1-minimal as far
    as the budget allows) that still violates the same clause."""
    calls = [0]

    def test(cand):
        if calls[0] >= budget:
            return None
        calls[0] += 1
        return _fails_same(mod, cfg, desc, cand, clause)

    base = test(ops)
    if base is None:
        return None
    ops = list(base.ops)            # drops unresolvable / unexecuted tail
    n = 2
    while len(ops) >= 2 and calls[0] < budget:
        size = max(1, len(ops) // n)
        reduced = False
        for start in range(0, len(ops), size):
            cand = ops[:start] + ops[start + size:]
            r = test(cand)
            if r is not None:
                ops = list(r.ops)
                n = max(n - 1, 2)
                reduced = True
                break
        if not reduced:
            if size == 1:
                break
            n = min(len(ops), n * 2)
    # per-op simplification offered by the world module
    simp = getattr(mod, 'simplify_op', None)
    if simp:
        changed = True
        while changed and calls[0] < budget:
            changed = False
            for i, op in enumerate(ops):
                for cand_op in simp(op):
                    cand = ops[:i] + [cand_op] + ops[i + 1:]
                    r = test(cand)
                    if r is not None:
                        ops = cand
                        changed = True
                        break
    # try smaller world descriptions offered by the module
    simpd = getattr(mod, 'simplify_desc', None)
    if simpd:
        for cand_desc in simpd(cfg, desc):
            if calls[0] >= budget:
                break
            calls[0] += 1
            if _fails_same(mod, cfg, cand_desc, ops, clause):
                desc = cand_desc
                break
    return cfg, desc, ops, calls[0]


# ----------------------------------------------------------------------------
# replay files
# ----------------------------------------------------------------------------

def write_replay(path, prop, modname, seed, cfg, desc, ops, violation, extra=None):
    os.makedirs(os.path.dirname(path), exist_ok=True)
    doc = {'property': prop, 'module': modname, 'seed': seed, 'cfg': cfg,
           'desc': desc, 'ops': ops, 'violation': violation}
    if extra:
        doc.update(extra)
    with open(path, 'w') as f:
        json.dump(doc, f, indent=1, sort_keys=True, default=repr)
    return path


def replay_file(path) -> RunResult:
    with open(path) as f:
        doc = json.load(f)
    mod = importlib.import_module(doc['module'])
    return execute(mod, doc['cfg'], doc['desc'], ops=doc['ops'], seed=doc.get('seed'))


def replay_in_fresh_process(path, hashseed='0'):
    """Replay in a fresh interpreter; returns the parsed JSON line it prints."""
    envv = dict(os.environ)
    envv['PYTHONHASHSEED'] = hashseed
    p = subprocess.run([sys.executable, '-m', 'sim.cli', '--replay-json', path],
                       cwd=env.VERIF_DIR, env=envv, capture_output=True, text=True,
                       timeout=600)
    for line in p.stdout.splitlines():
        if line.startswith('REPLAY-RESULT '):
            return json.loads(line[len('REPLAY-RESULT '):])
    raise HarnessError(f'replay subprocess gave no result: rc={p.returncode} '
                       f'{p.stdout[-500:]} {p.stderr[-2000:]}')
