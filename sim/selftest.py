"""Self-tests of the simulator.

  python -m sim.selftest determinism [--props C05,C09] [--seeds 300]
      every seed is executed (a) in this process tree with 16 workers and the
      registered chunk size, (b) with 3 workers and another chunk size, (c) in a
      fresh interpreter under another PYTHONHASHSEED; the event-log digests
      (op digest, outcome class, reference-state digest per step) must be identical.
  python -m sim.selftest digests <Cxx> <first seed> <n>      (used by (c))
"""
from __future__ import annotations

import json
import os
import subprocess
import sys

from . import env, engine
from .props import PROPS


def digests(prop, seeds, workers, chunk):
    info = PROPS[prop]
    res = engine.run_batch(info['module'], seeds, 'quick', workers=workers, chunk=chunk,
                           per_run_timeout=info.get('run_timeout', 120), stop_on_violation=False)
    out = {}
    for r in res:
        if r.get('harness_error'):
            raise engine.HarnessError(r['harness_error'])
        out[r['seed']] = r['log_digest']
    return out


def main():
    cmd = sys.argv[1]
    if cmd == 'digests':
        env.enter_scratch()
        env.import_toolbox()
        prop, first, n = sys.argv[2], int(sys.argv[3]), int(sys.argv[4])
        d = digests(prop, list(range(first, first + n)), 5, 9)
        print('DIGESTS ' + json.dumps(d), flush=True)
        return 0
    if cmd != 'determinism':
        print(__doc__)
        return 2
    env.reexec_guard = None
    args = sys.argv[2:]
    props = sorted(PROPS)
    nseeds = 300
    for i, a in enumerate(args):
        if a == '--props':
            props = args[i + 1].split(',')
        if a == '--seeds':
            nseeds = int(args[i + 1])
    env.enter_scratch()
    env.import_toolbox()
    bad = 0
    report = {}
    for prop in props:
        n = nseeds if prop != 'C16' else max(20, nseeds // 10)
        first = 7_000_000
        seeds = list(range(first, first + n))
        chunk = PROPS[prop].get('chunk', 20)
        a = digests(prop, seeds, 16, chunk)
        b = digests(prop, seeds, 3, max(3, chunk // 2 + 1))
        envv = dict(os.environ, PYTHONHASHSEED='12345')
        p = subprocess.run([sys.executable, '-m', 'sim.selftest', 'digests', prop, str(first), str(n)],
                           cwd=env.VERIF_DIR, env=envv, capture_output=True, text=True)
        line = next((ln for ln in p.stdout.splitlines() if ln.startswith('DIGESTS ')), None)
        if line is None:
            print(f'{prop}: HARNESS-ERROR child gave no digests: {p.stderr[-800:]}')
            bad += 1
            continue
        c = {int(k): v for k, v in json.loads(line[8:]).items()}
        diff_ab = [s for s in seeds if a[s] != b[s]]
        diff_ac = [s for s in seeds if a[s] != c[s]]
        report[prop] = {'seeds': n, 'distinct_digests': len(set(a.values())),
                        'differ_workers_chunks': diff_ab[:5], 'differ_hashseed_process': diff_ac[:5]}
        ok = not diff_ab and not diff_ac
        bad += not ok
        print(f'{prop}: {"deterministic" if ok else "NONDETERMINISTIC"} over {n} seeds x 3 executions '
              f'({len(set(a.values()))} distinct logs) {diff_ab[:3]} {diff_ac[:3]}', flush=True)
    os.makedirs(os.path.join(env.VERIF_DIR, 'selftest_results'), exist_ok=True)
    with open(os.path.join(env.VERIF_DIR, 'selftest_results', 'determinism.json'), 'w') as f:
        json.dump(report, f, indent=1, sort_keys=True)
    return 1 if bad else 0


if __name__ == '__main__':
    if os.environ.get('PYTHONHASHSEED') is None and sys.argv[1:2] == ['determinism']:
        os.execve(sys.executable, [sys.executable, '-m', 'sim.selftest'] + sys.argv[1:],
                  dict(os.environ, PYTHONHASHSEED='0'))
    sys.exit(main())
