"""World L (C03): several clients share one language specification dict.

Clients look up the attack steps of asset types through every channel the
toolbox offers, build further language graphs from the *same dict object*,
regenerate, build class factories and attack graphs - in a seeded interleaving.
After every step: the dict we handed in is unchanged, and every answer equals
the reference fold (Lang.steps) and the first answer given for that type.
"""
from __future__ import annotations

import copy
import os
import json

from .engine import Violation, SetupRejected, Unresolvable
from .lang import Lang, canon, gen_spec, small_fixed_specs, corpus
import copy as _copy
from .world import BaseWorld, call, weighted
from . import findings

RULE = ('one run = one language (seeded generator biased to chains where a step without '
        'reaches is extended with +> at several levels / hand-written corpus / coreLang) and a '
        'seeded interleaving of <=40 client ops (lookup through resolver, language-graph assets, '
        'attack-graph nodes; regenerate; new LanguageGraph on the same dict; new factory; attack '
        'graph generation, optionally with an exception injected in the middle; save spec). '
        'non-trivial = the language has an inheritance chain with a redefined step and the run '
        'did >=5 ops incl. >=2 lookups of one type separated by another op; distinct = distinct '
        'event-log digest')
REAL = ['maltoolbox.language.LanguageGraph', 'maltoolbox.language.LanguageClassesFactory',
        'maltoolbox.model.Model', 'maltoolbox.attackgraph.AttackGraph', 'python_jsonschema_objects']
STUB = ['instance-level wrapper around model.get_associated_assets_by_field_name that raises '
        'once (the injected mid-generation exception)']
ASSUMPTIONS = [
    'reference fold (sim/lang.py Lang.steps, 20 lines) is the meaning of "->", "+>" and absent reaches',
    'reaches expressions are compared as multisets (order not promised); the overrides flag of a resolved step is not compared',
    'a step with reaches=None and one with an empty expression list are the same',
]


def new_run(rng, tier):
    cfg = {'steps': rng.randint(6, 40), 'guards': findings.active_guards('C03'),
           'fault': rng.random() < 0.4}
    r = rng.random()
    if r < 0.08:
        spec = small_fixed_specs()[0]
        src = 'fixed:chain'
    elif r < 0.12:
        spec = small_fixed_specs()[1]
        src = 'fixed:net'
    elif r < (0.135 if tier == 'quick' else 0.125):
        spec = corpus('corelang')
        src = 'corelang'
        cfg['steps'] = min(cfg['steps'], 8)
    else:
        deep = tier == 'thorough' and rng.random() < 0.4
        spec = gen_spec(rng, {'bias_noreach_chain': 0.6, 'max_types': 9 if deep else 6,
                              'p_extends': 0.85 if deep else 0.75, 'transitive': False,
                              'max_assocs': 3, 'expr_depth': 1})
        if deep:
            cfg['steps'] = rng.randint(30, 90)
        if not spec['associations']:
            # classes cannot be generated for a language without associations
            spec['associations'].append(
                {'name': 'Link', 'meta': {}, 'leftAsset': spec['assets'][0]['name'],
                 'leftField': 'lnkA', 'leftMultiplicity': {'min': 0, 'max': None},
                 'rightAsset': spec['assets'][0]['name'], 'rightField': 'lnkB',
                 'rightMultiplicity': {'min': 0, 'max': None}})
        src = 'gen'
    if src == 'gen' and rng.random() < 0.2:
        # a specification written as a dict (or shipped in a .mar) may override an inherited
        # step with an *empty* list of expressions: "-> nothing" (MAL text cannot say that)
        L0 = Lang(copy.deepcopy(spec))
        cands = [(i, j) for i, a in enumerate(spec['assets']) for j, st in enumerate(a['attackSteps'])
                 if a['superAsset'] and st['reaches'] and st['reaches']['overrides']
                 and st['name'] in L0.steps(a['superAsset'])
                 and L0.steps(a['superAsset'])[st['name']]['reaches']]
        if cands:
            i, j = rng.choice(cands)
            spec['assets'][i]['attackSteps'][j]['reaches']['stepExpressions'] = []
            cfg['empty_override'] = True
    desc = {'spec': spec, 'source': src}
    if src == 'gen' and rng.random() < 0.25:
        # a specification built in Python (or YAML with anchors) may share one list or dict
        # between two steps of an asset; the world re-creates the sharing on its private copy
        cands = [(i, [j for j, st in enumerate(a['attackSteps']) if st['reaches']])
                 for i, a in enumerate(spec['assets'])]
        cands = [(i, js) for i, js in cands if len(js) >= 2]
        if cands:
            i, js = rng.choice(cands)
            j1, j2 = rng.sample(js, 2)
            # same content first (so that the language stays the one described by the spec) ...
            spec['assets'][i]['attackSteps'][j2]['reaches'] = copy.deepcopy(
                spec['assets'][i]['attackSteps'][j1]['reaches'])
            desc['alias'] = [i, j1, j2]         # ... then the same *object* inside the world
    if src == 'gen' and rng.random() < 0.35:
        # a second, different language that lives in the same process and (the
        # generator draws from one pool of names) shares asset type names with the first
        other = gen_spec(rng, {'bias_noreach_chain': 0.5, 'max_types': 5, 'p_extends': 0.7,
                               'transitive': False, 'max_assocs': 2, 'expr_depth': 1})
        if other['associations']:
            desc['other_spec'] = other
    return cfg, desc


def _norm_answer(attrs: dict) -> dict:
    """Canonical, order-insensitive view of one resolved step."""
    reaches = attrs.get('reaches')
    exprs = sorted(canon(e) for e in (reaches or {}).get('stepExpressions', []))
    return {'type': attrs.get('type'), 'ttc': attrs.get('ttc'),
            'tags': list(attrs.get('tags') or []), 'meta': attrs.get('meta'),
            'risk': attrs.get('risk'), 'requires': attrs.get('requires'),
            'reaches': exprs}


class World(BaseWorld):
    def __init__(self, cfg, desc):
        super().__init__(cfg, desc)
        from maltoolbox.language import LanguageGraph
        self.LanguageGraph = LanguageGraph
        self.S0 = canon(desc['spec'])
        self.L = Lang(copy.deepcopy(desc['spec']))
        self.spec = copy.deepcopy(desc['spec'])     # the shared dict object
        if desc.get('alias'):
            i, j1, j2 = desc['alias']
            try:
                steps = self.spec['assets'][i]['attackSteps']
                steps[j2]['reaches'] = steps[j1]['reaches']        # one object, two steps
                self.count('probe:spec_with_shared_subobjects')
            except (IndexError, KeyError, TypeError):
                pass
        self.expected = {t: {n: _norm_answer(s) for n, s in self.L.steps(t).items()}
                         for t in self.L.order}
        self.first = {}
        self.lgs = []
        self.factories = {}
        self.lookups = []
        self.nops = 0
        self.cur = 0
        self.unis = [None, None]
        if desc.get('source') == 'corelang':
            self.count('probe:corelang')
        if cfg.get('empty_override'):
            self.count('probe:inherited_step_overridden_with_no_expressions')
        # probe: the C03 shape
        self.shape = self._has_shape()
        if self.shape:
            self.count('probe:noreach_chain_extended_twice')
        self.chain_redef = any(
            a['superAsset'] and any(st['name'] in self.L.steps(a['superAsset'])
                                    for st in a['attackSteps'])
            for a in self.spec['assets'])
        o = call(LanguageGraph, self.spec)
        if o.raised:
            self._check_spec('construct LanguageGraph')
            raise SetupRejected('langgraph:' + o.exc_name())
        self.lgs.append(o.value)
        self._check_spec('construct LanguageGraph')
        if desc.get('other_spec'):
            self._save_uni(0)
            # build the second universe with the same code paths
            o2 = desc['other_spec']
            self.S0 = canon(o2)
            self.L = Lang(copy.deepcopy(o2))
            self.spec = copy.deepcopy(o2)
            self.expected = {t: {n: _norm_answer(st) for n, st in self.L.steps(t).items()}
                             for t in self.L.order}
            self.first, self.lgs, self.factories, self.lookups = {}, [], {}, []
            o = call(LanguageGraph, self.spec)
            if o.raised:
                self._check_spec('construct LanguageGraph (second language)')
                raise SetupRejected('langgraph:' + o.exc_name())
            self.lgs.append(o.value)
            self._check_spec('construct LanguageGraph (second language)')
            self._save_uni(1)
            self._load_uni(0)
            self.count('probe:two_languages_in_one_process')
            if set(self.unis[0]['L'].order) & set(self.unis[1]['L'].order):
                self.count('probe:two_languages_share_type_names')

    _UNI_KEYS = ('S0', 'L', 'spec', 'expected', 'first', 'lgs', 'factories', 'lookups')

    def _save_uni(self, u):
        self.unis[u] = {k: getattr(self, k) for k in self._UNI_KEYS}

    def _load_uni(self, u):
        for k, v in self.unis[u].items():
            setattr(self, k, v)
        self.cur = u

    def _mal_ok(self):
        """The language printed as MAL text in <dir of this language>/lang.mal - used only if
        a fresh compiler gives the specification back (C04 is decided elsewhere)."""
        key = '_mal_state_%d' % self.cur
        st = getattr(self, key, None)
        if st is None:
            import contextlib
            import io
            from . import malprint
            from .world_s import _norm_top
            from maltoolbox.language.compiler import MalCompiler
            d = self.path('src_lang%d' % self.cur)
            os.makedirs(d, exist_ok=True)
            path = os.path.join(d, 'lang.mal')
            spec = json.loads(self.S0)
            with open(path, 'w', encoding='utf-8') as f:
                f.write(malprint.single_file(spec))
            with contextlib.redirect_stderr(io.StringIO()):
                o = call(MalCompiler().compile, path)
            st = (not o.raised and _norm_top(o.value) == _norm_top(spec), path)
            setattr(self, key, st)
        self._mal_path = st[1]
        return st[0]

    def _has_shape(self):
        n = 0
        for t in self.L.order:
            for st in self.L.types[t]['attackSteps']:
                if st['reaches'] and not st['reaches']['overrides']:
                    sup = self.L.types[t]['superAsset']
                    if sup and st['name'] in self.L.steps(sup) and \
                            not self.L.steps(sup)[st['name']]['reaches']:
                        n += 1
        return n >= 2

    # ---------------------------------------------------------------- oracles
    def _check_spec(self, where):
        self.count('oracle:C03.spec_unchanged')
        now = canon(self.spec)
        if now != self.S0:
            raise Violation('C03.spec_unchanged',
                            f'the specification dict handed to LanguageGraph differs from its '
                            f'load-time copy after: {where}\n' + _diff(json.loads(self.S0), self.spec))

    def _check_answer(self, t, answer: dict, channel, partial=False):
        """answer: name -> normalised step (possibly partial views)."""
        exp = self.expected[t]
        self.count('oracle:C03.fold')
        if set(answer) != set(exp):
            raise Violation('C03.fold', f'{channel}: steps of {t}: got {sorted(answer)}, '
                                        f'reference fold gives {sorted(exp)}')
        for n, got in answer.items():
            for k, v in got.items():
                if canon(v) != canon(exp[n][k]):
                    raise Violation('C03.fold',
                                    f'{channel}: {t}.{n}.{k}: got {canon(v)[:600]} '
                                    f'reference fold gives {canon(exp[n][k])[:600]}')
        key = (t, channel if partial else 'full')
        self.count('oracle:C03.stable')
        c = canon(answer)
        if key in self.first and self.first[key] != c:
            raise Violation('C03.stable', f'{channel}: answer for {t} differs from the first '
                                          f'answer given in this run')
        self.first.setdefault(key, c)

    # -------------------------------------------------------------------- ops
    def gen_op(self, rng):
        types = self.L.order
        table = [(40, 'lookup'), (8, 'regen'), (8, 'new_lg'), (6, 'new_factory'),
                 (14, 'gen_ag'), (4, 'save_spec'), (6, 'scribble'), (3, 'lookup_unknown')]
        kind = weighted(rng, table)
        u = 0
        if self.unis[1] is not None and rng.random() < 0.3:
            u = 1
        if self.unis[1] is not None:
            self._save_uni(self.cur)
            self._load_uni(u)
        op = self._gen_op_in(rng, kind)
        if u:
            op['u'] = 1
        return op

    def _gen_op_in(self, rng, kind):
        types = self.L.order
        lg = rng.randrange(len(self.lgs))
        if kind == 'lookup':
            # bias: repeat the last type, or visit a sibling right after it
            if self.lookups and rng.random() < 0.5:
                last = self.lookups[-1]
                sibs = [t for t in types if self.L.types[t]['superAsset'] ==
                        self.L.types[last]['superAsset'] or
                        self.L.is_sub(t, last) or self.L.is_sub(last, t)]
                t = rng.choice(sibs) if rng.random() < 0.7 else last
            else:
                t = rng.choice(types)
            ch = weighted(rng, [(5, 'resolver'), (3, 'assets'), (2, 'attackgraph')])
            return {'op': 'lookup', 'lg': lg, 'type': t, 'channel': ch}
        if kind == 'new_lg' and len(self.lgs) >= 3:
            kind = 'regen'
        if kind == 'lookup_unknown':
            return {'op': 'lookup_unknown', 'lg': lg, 'n': rng.choice([1, 1, 2, 3, 5])}
        if kind == 'scribble':
            return {'op': 'scribble', 'lg': lg, 'types': [rng.choice(types) for _ in range(2)],
                    'what': rng.choice(['resolver', 'nodes', 'nodes'])}
        if kind == 'gen_ag':
            ts = [rng.choice(types) for _ in range(rng.randint(1, 4))]
            links = []
            for _ in range(rng.randint(0, 3)):
                links.append([rng.randrange(len(self.L.assocs)) if self.L.assocs else 0,
                              rng.randrange(len(ts)), rng.randrange(len(ts))])
            fault = None
            if self.cfg.get('fault') and rng.random() < 0.5:
                fault = rng.randint(1, 6)
            return {'op': 'gen_ag', 'lg': lg, 'types': ts, 'links': links, 'fault_at': fault}
        if kind == 'new_lg':
            # from the dict in memory, or from a .mar archive at a path that every language
            # of this process is written to in turn (same path, other content)
            return {'op': kind, 'lg': lg, 'via': rng.choice(['spec', 'spec', 'mar', 'mal'])}
        return {'op': kind, 'lg': lg}

    def _factory(self, i):
        from maltoolbox.language import LanguageClassesFactory
        if i not in self.factories:
            o = call(LanguageClassesFactory, self.lgs[i])
            if o.raised:
                raise SetupRejected('factory:' + o.exc_name())
            self.factories[i] = o.value
        return self.factories[i]

    def _tiny_model(self, i, types, links):
        from maltoolbox.model import Model
        f = self._factory(i)
        m = Model('tiny', f)
        assets = []
        for k, t in enumerate(types):
            cls = getattr(f.ns, t, None)
            if cls is None:
                # the classes were built from this very language graph
                raise Violation('C03.fold', f'the classes generated from the language graph have no '
                                            f'type {t}, which the loaded language defines')
            a = cls(name=f'{t}{k}')
            m.add_asset(a)
            assets.append(a)
        for ai, li, ri in links:
            if not self.L.assocs:
                break
            info = self.L.assocs[ai % len(self.L.assocs)]
            la, ra = assets[li % len(assets)], assets[ri % len(assets)]
            if la is ra:
                continue
            if not (self.L.is_sub(str(la.type), info.lt) and self.L.is_sub(str(ra.type), info.rt)):
                continue
            o = call(self._link, m, f, info, la, ra)
            # invalid links (multiplicity, duplicates) are simply skipped here
        return m

    @staticmethod
    def _link(m, f, info, la, ra):
        assoc = getattr(f.ns, info.cls)()
        setattr(assoc, info.lf, [la])
        setattr(assoc, info.rf, [ra])
        m.add_association(assoc)

    def apply(self, op):
        u = op.get('u', 0)
        if u and self.unis[1] is None:
            raise Unresolvable()
        if self.unis[1] is not None:
            self._save_uni(self.cur)
            self._load_uni(u)
        ev = self._apply_in(op)
        if self.unis[1] is not None:
            # the *other* language's specification must be untouched as well
            self._save_uni(self.cur)
            other = self.unis[1 - u]
            self.count('oracle:C03.spec_unchanged')
            if canon(other['spec']) != other['S0']:
                raise Violation('C03.spec_unchanged',
                                f'an operation on one language modified the specification of '
                                f'another language loaded in the same process (after {op["op"]})')
        return ev

    def _apply_in(self, op):
        kind = op['op']
        self.nops += 1
        self.count('op:' + kind)
        if op.get('lg', 0) >= len(self.lgs):
            raise Unresolvable()
        lg = self.lgs[op.get('lg', 0)]
        out = 'ok'
        if kind == 'lookup':
            t, ch = op['type'], op['channel']
            if t not in self.expected:
                raise Unresolvable()
            self.lookups.append(t)
            if ch == 'resolver':
                fn = getattr(lg, '_get_attacks_for_asset_type', None)
                if fn is None:
                    ch = 'assets'       # private helper gone: use the public channel
                else:
                    o = call(fn, t)
                    if o.raised:
                        raise Violation('C03.fold', f'resolver raised {o.exc!r} for {t}')
                    self._check_answer(t, {n: _norm_answer(a) for n, a in o.value.items()},
                                       'resolver')
            if ch == 'assets':
                asset = next((a for a in lg.assets if a.name == t), None)
                if asset is None:
                    raise Violation('C03.fold', f'language graph has no asset {t}')
                ans = {}
                names = [st.name for st in asset.attack_steps]
                if len(set(names)) != len(names):
                    raise Violation('C03.stable', f'assets: {t} lists attack steps more than once: '
                                                  f'{sorted(n for n in set(names) if names.count(n) > 1)}')
                for st in asset.attack_steps:
                    if isinstance(getattr(st, 'attributes', None), dict):
                        ans[st.name] = _norm_answer(st.attributes)
                    else:
                        ans[st.name] = {'type': st.type, 'ttc': st.ttc}
                self._check_answer(t, ans, 'assets', partial=True)
            if ch == 'attackgraph':
                self._gen_ag(op.get('lg', 0), [t], [], None, check_types=[t])
        elif kind == 'regen':
            o = call(lg.regenerate_graph)
            if o.raised:
                self._check_spec('regenerate_graph (raised)')
                raise Violation('C03.stable', f'regenerate_graph raised {o.exc!r} on a '
                                              f'specification that loaded before')
            self.factories.pop(op['lg'], None)
        elif kind == 'new_lg' and op.get('via') == 'mar':
            import zipfile
            p = self.path('lang.mar')
            with zipfile.ZipFile(p, 'w') as z:
                z.writestr('langspec.json', self.S0)
            o = call(self.LanguageGraph.from_mar_archive, p)
            if o.raised:
                raise Violation('C03.stable', f'from_mar_archive raised {o.exc!r} on a '
                                              f'specification that loaded before')
            self.lgs.append(o.value)
            self.count('probe:language_loaded_from_archive_path_used_before'
                       if getattr(self, '_mar_written', False) else 'probe:language_loaded_from_archive')
            self._mar_written = True
        elif kind == 'new_lg' and op.get('via') == 'mal' and self._mal_ok():
            # every language of the process keeps its source under the same file name, each
            # in a directory of its own
            o = call(self.LanguageGraph.from_mal_spec, self._mal_path)
            if o.raised:
                raise Violation('C03.stable', f'from_mal_spec raised {o.exc!r} on a source that '
                                              f'compiled before')
            o.value._verif_from_source = True
            self.lgs.append(o.value)
            self.count('probe:language_loaded_from_mal_source')
        elif kind == 'new_lg':
            o = call(self.LanguageGraph, self.spec)
            if o.raised:
                self._check_spec('LanguageGraph(spec) (raised)')
                raise Violation('C03.stable', f'LanguageGraph(spec) raised {o.exc!r} on a '
                                              f'specification that loaded before')
            self.lgs.append(o.value)
        elif kind == 'new_factory':
            self.factories.pop(op['lg'], None)
            self._factory(op['lg'])
        elif kind == 'gen_ag':
            out = self._gen_ag(op['lg'], op['types'], op['links'], op.get('fault_at'),
                               check_types=op['types'])
        elif kind == 'lookup_unknown':
            # asking for a type the language does not have: whatever the answer is,
            # it must not change what is answered for the types that exist
            fn = getattr(lg, '_get_attacks_for_asset_type', None)
            for _ in range(op.get('n', 1)):
                if fn is not None:
                    call(fn, 'NoSuchAssetType')
                call(lg.get_asset_by_name, 'NoSuchAssetType')
            self.count('probe:unknown_type_looked_up')
            for t in self.L.order[-2:] + self.L.order[:1]:
                for ch in ('resolver', 'attackgraph'):
                    self._apply_in({'op': 'lookup', 'lg': op['lg'], 'type': t, 'channel': ch})
        elif kind == 'scribble':
            out = self._scribble(op)
        elif kind == 'save_spec':
            p = self.fresh_path('.json')
            o = call(lg.save_language_specification_to_json, p)
            if not o.raised:
                with open(p) as f:
                    saved = json.load(f)
                self.count('oracle:C03.spec_unchanged')
                same = canon(saved) == self.S0
                if not same and getattr(lg, '_verif_from_source', False):
                    # compiled from text: the order of the top-level lists follows the text
                    from .world_s import _norm_top
                    same = _norm_top(saved) == _norm_top(json.loads(self.S0))
                if not same:
                    raise Violation('C03.spec_unchanged',
                                    'saved language specification differs from the one loaded\n'
                                    + _diff(json.loads(self.S0), saved))
        else:
            raise Unresolvable()
        self._check_spec(kind)
        self.count('out:' + out)
        return [kind, out, '']

    def _scribble(self, op):
        """A client edits, in place, data it was handed (the dict returned by the
        resolver; tags / attributes / ttc of the nodes of an attack graph it built).
        Nothing anybody else sees may change: the lookup is pure."""
        from maltoolbox.attackgraph import AttackGraph
        lg = self.lgs[op['lg']]
        for t in op['types']:
            if t not in self.expected:
                raise Unresolvable()
        junk = {'type': 'attackStep', 'name': 'scribbled'}
        if op.get('what') == 'resolver':
            fn = getattr(lg, '_get_attacks_for_asset_type', None)
            if fn is None:
                return 'ok'
            for t in op['types']:
                o = call(fn, t)
                if o.raised:
                    continue
                for attrs in o.value.values():
                    attrs['tags'].append('scribbled')
                    attrs['meta']['scribbled'] = 'x'
                    if attrs.get('reaches'):
                        attrs['reaches']['stepExpressions'].append(dict(junk))
                    if isinstance(attrs.get('ttc'), dict):
                        attrs['ttc']['scribbled'] = 1
        else:
            m = self._tiny_model(op['lg'], op['types'], [])
            o = call(AttackGraph, lg, m)
            if o.raised:
                return 'raised'
            for node in o.value.nodes:
                if isinstance(node.tags, list):
                    node.tags.append('scribbled')
                if isinstance(node.ttc, dict):
                    node.ttc['scribbled'] = 1
                if isinstance(node.attributes, dict):
                    node.attributes['meta']['scribbled'] = 'x'
                    if node.attributes.get('reaches'):
                        node.attributes['reaches']['stepExpressions'].append(dict(junk))
        self.count('probe:client_scribbled_on_results')
        # every type must still answer with the reference fold, through every channel
        for t in op['types']:
            for ch in ('resolver', 'assets'):
                self._apply_in({'op': 'lookup', 'lg': op['lg'], 'type': t, 'channel': ch})
        return 'ok'

    def _gen_ag(self, i, types, links, fault_at, check_types):
        from maltoolbox.attackgraph import AttackGraph
        for t in types:
            if t not in self.expected:
                raise Unresolvable()
        m = self._tiny_model(i, types, links)
        if fault_at:
            orig = m.get_associated_assets_by_field_name
            state = {'n': 0}

            def faulty(asset, field_name):
                state['n'] += 1
                if state['n'] == fault_at:
                    self.count('fault:exception_mid_generation')
                    raise OSError(5, 'injected fault in the middle of graph generation')
                return orig(asset, field_name)
            m.get_associated_assets_by_field_name = faulty
        o = call(AttackGraph, self.lgs[i], m)
        if o.raised:
            if fault_at and isinstance(o.exc, OSError):
                return 'raised'
            if isinstance(o.exc, RecursionError):
                return 'raised'         # C01 territory (transitive over a cycle)
            # generation problems are C01/C02's business, but the spec must be intact
            return 'raised'
        g = o.value
        for k, t in enumerate(types):
            ans = {}
            for node in g.nodes:
                if node.asset is not None and str(node.asset.name) == f'{t}{k}':
                    if isinstance(node.attributes, dict):
                        a = _norm_answer(node.attributes)
                        # the node's own copies must agree with its attributes
                        a_node = {'type': node.type, 'ttc': node.ttc, 'tags': list(node.tags)}
                        for kk, vv in a_node.items():
                            if canon(vv) != canon(a[kk]):
                                a[kk] = vv
                        ans[node.name] = a
                    else:
                        ans[node.name] = {'type': node.type, 'ttc': node.ttc,
                                          'tags': list(node.tags)}
            self._check_answer(t, ans, 'attackgraph', partial=True)
        return 'ok'

    def nontrivial(self):
        if not self.chain_redef or self.nops < 5:
            return False
        # >=2 lookups of one type separated by something else
        seen = {}
        for idx, t in enumerate(self.lookups):
            if t in seen and idx - seen[t] >= 1:
                return True
            seen.setdefault(t, idx)
        return False


def _diff(a, b, path='', out=None, limit=6):
    out = [] if out is None else out
    if len(out) >= limit:
        return '\n'.join(out)
    if type(a) is not type(b):
        out.append(f'  {path}: {canon(a)[:200]} -> {canon(b)[:200]}')
    elif isinstance(a, dict):
        for k in sorted(set(a) | set(b)):
            if k not in a or k not in b:
                out.append(f'  {path}/{k}: present on one side only')
            else:
                _diff(a[k], b[k], f'{path}/{k}', out, limit)
    elif isinstance(a, list):
        if len(a) != len(b):
            out.append(f'  {path}: list length {len(a)} -> {len(b)}: {canon(b)[:300]}')
        else:
            for i, (x, y) in enumerate(zip(a, b)):
                _diff(x, y, f'{path}[{i}]', out, limit)
    elif a != b:
        out.append(f'  {path}: {a!r} -> {b!r}')
    return '\n'.join(out)


def simplify_desc(cfg, desc):
    for s in small_fixed_specs():
        yield {'spec': s, 'source': 'fixed'}
