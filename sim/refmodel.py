"""Reference model of an instance model (trivial inside: dicts and lists).

Handles ('a3', 's1', 'k0') are handed out in creation order by the world and
stay valid for the life of a run; the reference only knows handles.
"""
from __future__ import annotations

import copy


class RefAsset:
    __slots__ = ('h', 'id', 'name', 'type', 'defenses', 'extras', 'live')

    def __init__(self, h, typ, name, defenses, extras):
        self.h = h
        self.id = None
        self.name = name
        self.type = typ
        self.defenses = dict(defenses)      # every defense of the type -> float
        self.extras = copy.deepcopy(extras) if extras else {}
        self.live = False


class RefAssoc:
    __slots__ = ('h', 'cls', 'left', 'right', 'extras', 'live')

    def __init__(self, h, cls, left, right):
        self.h = h
        self.cls = cls
        self.left = list(left)      # asset handles
        self.right = list(right)
        self.extras = {}
        self.live = False


class RefAttacker:
    __slots__ = ('h', 'id', 'name', 'eps', 'live')

    def __init__(self, h, name):
        self.h = h
        self.id = None
        self.name = name
        self.eps = []       # [asset handle, [steps]]
        self.live = False


class RefModel:
    def __init__(self, name, lang):
        self.name = name
        self.L = lang
        self.assets = {}        # handle -> RefAsset (live or not)
        self.order = []         # live asset handles, insertion order
        self.assocs = {}
        self.assoc_order = []
        self.attackers = {}
        self.attacker_order = []

    # ---------------------------------------------------------------- queries
    def live_ids(self):
        return {self.assets[h].id for h in self.order}

    def live_names(self):
        return {self.assets[h].name for h in self.order}

    def by_id(self, i):
        return next((h for h in self.order if self.assets[h].id == i), None)

    def by_name(self, n):
        return next((h for h in self.order if self.assets[h].name == n), None)

    def assocs_of(self, h):
        return [s for s in self.assoc_order
                if h in self.assocs[s].left or h in self.assocs[s].right]

    def neighbours(self, h, field):
        out = set()
        for s in self.assoc_order:
            a = self.assocs[s]
            info = self.L.assoc_by_cls[a.cls]
            if h in a.left and info.rf == field:
                out.update(self.assets[x].id for x in a.right)
            if h in a.right and info.lf == field:
                out.update(self.assets[x].id for x in a.left)
        return sorted(out)

    def link_exists(self, cls, l, r, exclude=None):
        for s in self.assoc_order:
            a = self.assocs[s]
            if a.cls == cls and s != exclude and l in a.left and r in a.right:
                return True
        return False

    # ------------------------------------------------------------- validity
    def association_problem(self, cls, left, right):
        """None if (cls, left, right) may be added, else a reason (C06)."""
        info = self.L.assoc_by_cls[cls]
        for side, members, typ, mx in (('left', left, info.lt, info.lmax),
                                       ('right', right, info.rt, info.rmax)):
            for h in members:
                if not self.L.is_sub(self.assets[h].type, typ):
                    return f'type:{side}'
            if mx is not None and mx and len(members) > mx:
                return f'max:{side}'
            if len(set(members)) != len(members):
                return f'repeat:{side}'
        for l in left:
            for r in right:
                if self.link_exists(cls, l, r):
                    return 'duplicate_link'
        return None

    # ------------------------------------------------------------ mutations
    def add_asset(self, ra: RefAsset, asset_id, name):
        ra.id = asset_id
        ra.name = name
        ra.live = True
        self.assets[ra.h] = ra
        self.order.append(ra.h)

    def remove_assoc(self, s):
        self.assocs[s].live = False
        self.assoc_order.remove(s)

    def remove_asset_from_assoc(self, h, s):
        """The asset leaves every field of the association; if it was the only
        member of a field the association goes as a whole.  The *record* of a
        removed association keeps exactly the members the real object keeps (the
        left field is processed first), because operations on a removed
        association that is value-equal to a live one are unspecified and the
        generator has to recognise that case."""
        a = self.assocs[s]
        for side in (a.left, a.right):
            if h in side:
                if len(side) == 1:
                    self.remove_assoc(s)
                    return
                side[:] = [x for x in side if x != h]

    def remove_asset(self, h):
        for s in list(self.assocs_of(h)):
            self.remove_asset_from_assoc(h, s)
        for k in self.attacker_order:
            at = self.attackers[k]
            at.eps = [e for e in at.eps if e[0] != h]
        self.assets[h].live = False
        self.order.remove(h)

    def add_assoc(self, ra: RefAssoc):
        ra.live = True
        self.assocs[ra.h] = ra
        self.assoc_order.append(ra.h)

    def add_attacker(self, rk: RefAttacker, attacker_id, name):
        rk.id = attacker_id
        rk.name = name
        rk.live = True
        self.attackers[rk.h] = rk
        self.attacker_order.append(rk.h)

    def remove_attacker(self, k):
        self.attackers[k].live = False
        self.attacker_order.remove(k)

    def add_entry_point(self, k, h, step):
        at = self.attackers[k]
        for e in at.eps:
            if e[0] == h:
                if step not in e[1]:
                    e[1].append(step)
                return
        at.eps.append([h, [step]])

    def remove_entry_point(self, k, h, step):
        at = self.attackers[k]
        for e in at.eps:
            if e[0] == h:
                if step in e[1]:
                    e[1].remove(step)
                if not e[1]:
                    at.eps.remove(e)
                return

    # ---------------------------------------------------------- observation
    def observe(self):
        """Same shape as world_m.observe_model()."""
        assets = []
        for h in self.order:
            a = self.assets[h]
            assets.append({'id': a.id, 'name': a.name, 'type': a.type,
                           'defenses': dict(sorted(a.defenses.items())),
                           'extras': a.extras,
                           'backrefs': sorted(self.assoc_order.index(s)
                                              for s in self.assocs_of(h))})
        assocs = []
        for s in self.assoc_order:
            a = self.assocs[s]
            info = self.L.assoc_by_cls[a.cls]
            assocs.append({'cls': a.cls,
                           'fields': {info.lf: sorted(self.assets[x].id for x in a.left),
                                      info.rf: sorted(self.assets[x].id for x in a.right)},
                           'extras': a.extras})
        attackers = []
        for k in self.attacker_order:
            at = self.attackers[k]
            attackers.append({'id': at.id, 'name': at.name,
                              'entry_points': [[self.assets[h].id, list(steps)]
                                               for h, steps in at.eps]})
        neigh = {}
        fields = self.L.all_field_names()
        for h in self.order:
            a = self.assets[h]
            for f in fields:
                n = self.neighbours(h, f)
                if n:
                    neigh[f'{a.id}.{f}'] = n
        return {'name': self.name, 'assets': assets, 'associations': assocs,
                'attackers': attackers, 'neighbours': neigh}

    def to_dict_view(self):
        """What Model._to_dict() should contain, normalised (see world_m)."""
        assets = {}
        for h in self.order:
            a = self.assets[h]
            d = {'name': a.name, 'type': a.type}
            defaults = self.L.defenses(a.type)
            nd = {k: v for k, v in a.defenses.items() if v != defaults[k]}
            if nd:
                d['defenses'] = nd
            if a.extras:
                d['extras'] = a.extras
            assets[a.id] = d
        assocs = []
        for s in self.assoc_order:
            a = self.assocs[s]
            info = self.L.assoc_by_cls[a.cls]
            d = {a.cls: {info.lf: sorted(self.assets[x].id for x in a.left),
                         info.rf: sorted(self.assets[x].id for x in a.right)}}
            if a.extras:
                d['extras'] = a.extras
            assocs.append(d)
        attackers = {}
        for k in self.attacker_order:
            at = self.attackers[k]
            attackers[at.id] = {'name': at.name, 'entry_points': {
                self.assets[h].id: {'attack_steps': list(steps)} for h, steps in at.eps}}
        return {'name': self.name, 'assets': assets, 'associations': assocs,
                'attackers': attackers}
