"""C06: see world_m.py"""
from .world_m import ModelWorld as World, RULE, REAL, STUB, ASSUMPTIONS, new_run_for  # noqa: F401


def new_run(rng, tier):
    return new_run_for('C06', rng, tier)
