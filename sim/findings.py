"""Known-findings file (read-only at run time).

/verif/known_findings.json is a list of entries:
  {"status": "known" | "fixed", "property": "C07", "clause": "C07.roundtrip",
   "guard": "<name of a guard predicate in the world module>",
   "what": "<one line>", "replay": "findings/<file>.json", "commit": "<sha>"}

* known : the generator does not issue ops matching the guard (counted as
          `guarded`), the probe replays `replay` and prints a KNOWN-FINDING line.
* fixed : suppresses nothing.  If a `replay` is given it is executed as a
          regression probe and must pass.
"""
from __future__ import annotations

import json
import os

from .env import VERIF_DIR

PATH = os.path.join(VERIF_DIR, 'known_findings.json')


def load() -> list[dict]:
    if not os.path.exists(PATH):
        return []
    with open(PATH) as f:
        return json.load(f)


def for_property(prop: str) -> list[dict]:
    return [e for e in load() if e.get('property') == prop or
            prop in e.get('also_guards_in', [])]


def active_guards(prop: str) -> list[str]:
    return sorted({e['guard'] for e in for_property(prop)
                   if e.get('status') == 'known' and e.get('guard')})
