"""The "language author" peer: prints a language specification as MAL text with
minimal parentheses (following maltoolbox/language/compiler/mal.g4) and lays the
declarations out over one or more files.  Test-side code.
"""
from __future__ import annotations

SETOPS = {'union': '\\/', 'intersection': '/\\', 'difference': '-'}


# ----------------------------------------------------------------------------
# step expressions
# ----------------------------------------------------------------------------
# expr  : parts (setop parts)*         (left associative, one precedence level)
# parts : part ('.' part)*             (left associative)
# part  : ( '(' expr ')' | ID '(' ')' | ID ) '*'? ('[' ID ']')*

def expr(e) -> str:
    t = e['type']
    if t in SETOPS:
        return f"{expr(e['lhs'])} {SETOPS[t]} {parts(e['rhs'])}"
    return parts(e)


def parts(e) -> str:
    t = e['type']
    if t in SETOPS:
        return '(' + expr(e) + ')'
    if t == 'collect':
        return f"{parts(e['lhs']) if e['lhs']['type'] not in SETOPS else '(' + expr(e['lhs']) + ')'}" \
               f".{part(e['rhs'])}"
    return part(e)


def part(e) -> str:
    t = e['type']
    if t in ('field', 'attackStep'):
        return e['name']
    if t == 'variable':
        return e['name'] + '()'
    if t == 'subType':
        inner = e['stepExpression']
        return _suffixable(inner, allow_star=True, allow_types=True) + f"[{e['subType']}]"
    if t == 'transitive':
        inner = e['stepExpression']
        return _suffixable(inner, allow_star=False, allow_types=False) + '*'
    return '(' + expr(e) + ')'


def _suffixable(e, allow_star, allow_types) -> str:
    """Text of e such that a suffix ('*' or '[T]') may follow directly."""
    t = e['type']
    if t in ('field', 'attackStep'):
        return e['name']
    if t == 'variable':
        return e['name'] + '()'
    if t == 'transitive' and allow_star:
        return part(e)                  # x*[T]
    if t == 'subType' and allow_types:
        return part(e)                  # x[T1][T2]
    return '(' + expr(e) + ')'


# ----------------------------------------------------------------------------
# TTC expressions
# ----------------------------------------------------------------------------
# ttcexpr : ttcterm (('+'|'-') ttcterm)* ; ttcterm : ttcfact (('*'|'/') ttcfact)*
# ttcfact : ttcatom ('^' ttcatom)? ; ttcatom : dist | '(' ttcexpr ')' | number

def num(v) -> str:
    f = float(v)
    if f == int(f) and abs(f) < 1e15:
        return str(int(f))
    s = repr(f)
    if 'e' in s or 'E' in s:
        s = f'{f:.12f}'.rstrip('0')
    return s


def ttc_expr(t) -> str:
    k = t['type']
    if k in ('addition', 'subtraction'):
        op = '+' if k == 'addition' else '-'
        return f"{ttc_expr(t['lhs'])} {op} {ttc_term(t['rhs'])}"
    return ttc_term(t)


def ttc_term(t) -> str:
    k = t['type']
    if k in ('addition', 'subtraction'):
        return '(' + ttc_expr(t) + ')'
    if k in ('multiplication', 'division'):
        op = '*' if k == 'multiplication' else '/'
        return f"{ttc_term(t['lhs'])} {op} {ttc_fact(t['rhs'])}"
    return ttc_fact(t)


def ttc_fact(t) -> str:
    k = t['type']
    if k == 'exponentiation':
        return f"{ttc_atom(t['lhs'])} ^ {ttc_atom(t['rhs'])}"
    if k in ('addition', 'subtraction', 'multiplication', 'division'):
        return '(' + ttc_expr(t) + ')'
    return ttc_atom(t)


def ttc_atom(t) -> str:
    k = t['type']
    if k == 'function':
        if t['arguments']:
            return f"{t['name']}({', '.join(num(a) for a in t['arguments'])})"
        return t['name']
    if k == 'number':
        return num(t['value'])
    return '(' + ttc_expr(t) + ')'


# ----------------------------------------------------------------------------
# declarations
# ----------------------------------------------------------------------------

def _meta(meta: dict, indent: str) -> str:
    return ''.join(f'{indent}{k} info: "{v}"\n' for k, v in meta.items())


def mult(m) -> str:
    lo, hi = m['min'], m['max']
    if hi is None:
        return '*' if lo == 0 else f'{lo}..*'
    if lo == hi:
        return str(lo)
    return f'{lo}..{hi}'


STEP_SYM = {'or': '|', 'and': '&', 'defense': '#', 'exist': 'E', 'notExist': '!E'}


def step(st) -> str:
    out = f"    {STEP_SYM[st['type']]} {st['name']}"
    for tg in st['tags']:
        out += f' @{tg}'
    if st['risk']:
        letters = [c for c, k in (('C', 'isConfidentiality'), ('I', 'isIntegrity'),
                                  ('A', 'isAvailability')) if st['risk'].get(k)]
        out += ' {' + ', '.join(letters) + '}'
    if st['ttc'] is not None:
        out += f" [{ttc_expr(st['ttc'])}]"
    out += '\n'
    out += _meta(st['meta'], '      ')
    if st['requires']:
        out += '      <- ' + ',\n         '.join(expr(e) for e in st['requires']['stepExpressions']) + '\n'
    if st['reaches']:
        arrow = '->' if st['reaches']['overrides'] else '+>'
        out += f'      {arrow} ' + ',\n         '.join(
            expr(e) for e in st['reaches']['stepExpressions']) + '\n'
    return out


def asset(a) -> str:
    out = '  '
    if a['isAbstract']:
        out += 'abstract '
    out += f"asset {a['name']}"
    if a['superAsset']:
        out += f" extends {a['superAsset']}"
    out += '\n' + _meta(a['meta'], '    ') + '  {\n'
    for v in a['variables']:
        out += f"    let {v['name']} = {expr(v['stepExpression'])}\n"
    for st in a['attackSteps']:
        out += step(st)
    out += '  }\n'
    return out


def category_block(cat, assets) -> str:
    out = f"category {cat['name']}\n" + _meta(cat['meta'], '  ') + '{\n'
    for a in assets:
        out += asset(a)
    out += '}\n'
    return out


def association(a) -> str:
    out = (f"  {a['leftAsset']} [{a['leftField']}] {mult(a['leftMultiplicity'])} <-- {a['name']} --> "
           f"{mult(a['rightMultiplicity'])} [{a['rightField']}] {a['rightAsset']}\n")
    out += _meta(a['meta'], '    ')
    return out


def associations_block(assocs) -> str:
    return 'associations {\n' + ''.join(association(a) for a in assocs) + '}\n'


def declarations(spec) -> list[tuple[str, str]]:
    """[(kind, text)] - the unit the layout actor distributes over files."""
    out = []
    for k, v in spec['defines'].items():
        out.append(('define', f'#{k}: "{v}"\n'))
    cats = {c['name']: c for c in spec['categories']}
    for a in spec['assets']:
        cat = cats.get(a['category'], {'name': a['category'], 'meta': {}})
        out.append(('category', category_block(cat, [a])))
    used = {a['category'] for a in spec['assets']}
    for c in spec['categories']:
        if c['name'] not in used:
            out.append(('category', category_block(c, [])))
    for a in spec['associations']:
        out.append(('associations', associations_block([a])))
    return out


def single_file(spec) -> str:
    """Canonical single-file text: assets grouped per category in order."""
    out = ''.join(f'#{k}: "{v}"\n' for k, v in spec['defines'].items())
    cats = {c['name']: c for c in spec['categories']}
    done = []
    for c in spec['categories']:
        mine = [a for a in spec['assets'] if a['category'] == c['name']]
        out += category_block(c, mine)
        done.append(c['name'])
    rest = [a for a in spec['assets'] if a['category'] not in done]
    for a in rest:
        out += category_block(cats.get(a['category'], {'name': a['category'], 'meta': {}}), [a])
    if spec['associations']:
        out += associations_block(spec['associations'])
    return out
