"""Command line of the checks:  python -m sim.cli <Cxx> quick|thorough|survey
                                 python -m sim.cli <Cxx> --replay <file>
"""
from __future__ import annotations

import argparse
import collections
import importlib
import json
import os
import sys
import time

from . import env, engine, findings
from .props import PROPS


def _print(*a):
    print(*a, flush=True)


def _seeds(base: int, n: int) -> list[int]:
    return [base * 1_000_000 + i for i in range(n)]


def _load_mod(prop):
    env.enter_scratch()
    env.import_toolbox()
    return importlib.import_module(PROPS[prop]['module'])


def cmd_replay_json(path):
    env.enter_scratch()
    env.import_toolbox()
    r = engine.replay_file(path)
    _print('REPLAY-RESULT ' + json.dumps({'violation': r.violation,
                                          'rejected': r.rejected,
                                          'log_digest': r.log_digest,
                                          'steps': r.steps}))
    return 0


def cmd_replay(prop, path):
    env.enter_scratch()
    env.import_toolbox()
    r = engine.replay_file(path)
    if r.violation:
        _print(f'VIOLATION property={prop} replay={path}')
        _print(f'  clause={r.violation["clause"]} step={r.violation["step"]}')
        _print('  ' + r.violation['message'].replace('\n', '\n  '))
        return engine.EXIT_VIOLATION
    _print(f'replay of {path}: no violation (rejected={r.rejected}, steps={r.steps})')
    return engine.EXIT_OK


def run_probes(prop, mod):
    """Known-finding probes and fixed-finding regression probes."""
    printed = []
    regress = []
    for e in findings.for_property(prop):
        if e.get('property') != prop:
            continue
        rp = e.get('replay')
        if not rp:
            if e['status'] == 'known':
                _print(f'KNOWN-FINDING: property={prop} {e["what"]} (no probe replay)')
                printed.append(e['what'])
            continue
        path = os.path.join(env.VERIF_DIR, rp)
        with open(path) as f:
            doc = json.load(f)
        r = engine.forked(engine._replay_summary, doc)      # never in this process
        v = r['violation']
        if e['status'] == 'known':
            if v and v['clause'] == e.get('clause', v['clause']):
                _print(f'KNOWN-FINDING: property={prop} {e["what"]} '
                       f'[clause {v["clause"]}, replay {rp}]')
                printed.append(e['what'])
            else:
                _print(f'NOTE: known finding no longer reproduces (turn it into "fixed"): '
                       f'{e["what"]} -> {v}')
        else:
            if v:
                regress.append((path, v))
    return printed, regress


def handle_violation(prop, modname, mod, summ, tier):
    """Reproduce, minimise, confirm in a fresh process, write replay files."""
    clause = summ['violation']['clause']
    seed = summ['seed']
    rdir = os.path.join(env.VERIF_DIR, 'replays', prop)
    doc = {'property': prop, 'module': modname, 'seed': seed, 'tier': tier,
           'cfg': summ['cfg'], 'desc': summ['desc'], 'ops': summ['ops'],
           'violation': summ['violation'], 'prelude': []}
    orig = engine.write_replay(os.path.join(rdir, f'{seed}.orig.json'), doc)
    # (a) reproduce from the recorded ops in a fresh interpreter
    rr = engine.replay_in_fresh_process(orig)
    if not rr['violation'] or rr['violation']['clause'] != clause:
        # not a function of this run alone: the history of the process matters.
        # Every chunk starts from a pristine forked child, so the earlier runs of
        # the chunk are the complete history; record them as a prelude.
        before = summ.get('chunk_before') or []
        if before:
            doc['prelude'] = engine.forked(engine.regenerate_runs, modname, before, tier)
            engine.write_replay(orig, doc)
            rr = engine.replay_in_fresh_process(orig)
        if not rr['violation'] or rr['violation']['clause'] != clause:
            _print(f'HARNESS-ERROR nondeterministic: seed {seed} clause {clause} did not '
                   f'reproduce from recorded ops (prelude of {len(doc["prelude"])} runs): {rr}')
            return engine.EXIT_HARNESS, orig
    # (b) minimise
    m = engine.minimise(doc, clause,
                        budget=int(os.environ.get('VERIF_SHRINK_BUDGET', '400')))
    if m is None:
        _print(f'HARNESS-ERROR nondeterministic: forked replay of seed {seed} '
               f'does not fail with {clause}')
        return engine.EXIT_HARNESS, orig
    mdoc, calls = m
    final = engine.forked(engine._replay_summary, mdoc)
    mdoc = dict(mdoc, violation=final['violation'], shrink_calls=calls,
                orig_ops=len(summ['ops']))
    mn = engine.write_replay(os.path.join(rdir, f'{seed}.min.json'), mdoc)
    # (c) the minimised file must fail the same way in a fresh process
    rr = engine.replay_in_fresh_process(mn)
    if not rr['violation'] or rr['violation']['clause'] != clause:
        _print(f'HARNESS-ERROR minimised replay does not reproduce: {rr}')
        return engine.EXIT_HARNESS, mn
    _print(f'VIOLATION property={prop} replay={mn}')
    pre = f', {len(mdoc["prelude"])} earlier run(s) of the process' if mdoc.get('prelude') else ''
    _print(f'  seed={seed} clause={clause} ops={len(mdoc["ops"])} (from {len(summ["ops"])}{pre}, '
           f'{calls} re-executions)')
    _print('  ' + final['violation']['message'].replace('\n', '\n  ')[:3000])
    return engine.EXIT_VIOLATION, mn


def cmd_check(prop, tier, nruns=None, survey=False):
    t0 = time.time()
    info = PROPS[prop]
    modname = info['module']
    mod = _load_mod(prop)
    base = int(os.environ.get('VERIF_SEED', '0'))
    n = nruns or info[tier if tier in ('quick', 'thorough') else 'quick']
    if os.environ.get('VERIF_RUNS'):
        n = int(os.environ['VERIF_RUNS'])
    seeds = _seeds(base, n)
    exit_code = engine.EXIT_OK
    replay_path = None

    printed, regress = run_probes(prop, mod)
    for path, v in regress:
        _print(f'VIOLATION property={prop} replay={path}')
        _print(f'  a finding recorded as fixed fails again: {v["clause"]}: {v["message"][:500]}')
        exit_code = engine.EXIT_VIOLATION
        replay_path = path

    try:
        results = engine.run_batch(modname, seeds, tier, chunk=info.get('chunk', 20),
                                   per_run_timeout=info.get('run_timeout', 120),
                                   stop_on_violation=not survey)
    except engine.HarnessError as e:
        _print(f'HARNESS-ERROR {e}')
        return engine.EXIT_HARNESS

    stats = collections.Counter()
    rejected = collections.Counter()
    digests = set()
    states = set()
    nontrivial_digests = set()
    viol = []
    herr = []
    steps = 0
    for r in results:
        if r.get('harness_error'):
            herr.append(r)
            continue
        steps += r['steps']
        states.update(r.get('state_sample') or ())
        stats.update(r['stats'])
        digests.add(r['log_digest'])
        if r['rejected']:
            rejected[r['rejected']] += 1
        if r['nontrivial']:
            nontrivial_digests.add(r['log_digest'])
        if r['violation']:
            viol.append(r)
    if herr:
        _print(f'HARNESS-ERROR in run seed={herr[0]["seed"]}:\n{herr[0]["harness_error"]}')
        return engine.EXIT_HARNESS

    if survey:
        hist = collections.Counter(v['violation']['clause'] for v in viol)
        _print(f'survey: {len(results)} runs, {len(viol)} violating, rejected={dict(rejected)}')
        for c, k in hist.most_common():
            ex = next(v for v in viol if v['violation']['clause'] == c)
            _print(f'  {k:6d}  {c}   e.g. seed {ex["seed"]}: {ex["violation"]["message"][:300]!r}')
        _print('stats: ' + json.dumps(dict(sorted(stats.items()))))
        return 0

    if viol:
        v = min(viol, key=lambda x: x['seed'])
        code, replay_path = handle_violation(prop, modname, mod, v, tier)
        exit_code = max(exit_code, code) if code != engine.EXIT_OK else exit_code

    done = len(results)
    rej = sum(v for k, v in rejected.items() if not k.startswith('desync:'))
    max_rej = info.get('max_rejected_fraction', 0.5)
    if done and rej / done > max_rej and exit_code == engine.EXIT_OK:
        _print(f'HARNESS-ERROR vacuous: {rej}/{done} runs could not build their world: '
               f'{dict(rejected)}')
        exit_code = engine.EXIT_HARNESS
    # probes that must fire in a tier
    need = info.get('must_fire', {}).get(tier, [])
    missing = [k for k in need if stats.get(k, 0) == 0]
    if missing and exit_code == engine.EXIT_OK and done >= n and not os.environ.get('VERIF_RUNS'):
        _print(f'HARNESS-ERROR probes never fired in tier {tier}: {missing}')
        exit_code = engine.EXIT_HARNESS

    wall = time.time() - t0
    samples = []
    try:
        for s in seeds[:3]:
            rr = engine.run_seed(mod, s, tier)
            samples.append({'seed': s, 'ops': rr.ops[:60],
                            'outcomes': [e[2] if isinstance(e, (list, tuple)) and len(e) > 2 else e
                                         for e in rr.events[:60]]})
    except Exception as e:      # noqa: BLE001
        samples.append({'error': repr(e)})
    ev = {
        'property_id': prop,
        'tier': tier,
        'seed': base,
        'level': 'exploration',
        'coverage': {
            'evaluations': done,
            'distinct_nontrivial': len(nontrivial_digests),
            'rule': getattr(mod, 'RULE', ''),
            'samples': samples,
            'runs': done,
            'runs_requested': n,
            'simulated_steps': steps,
            'simulated_time': ('not applicable: the library has no clocks, timers or deadlines; a run is '
                               'measured in steps (one API call / restart / fault = one step)'),
            'runs_per_hour': int(done / wall * 3600) if wall > 0 else 0,
            'distinct_event_logs': len(digests),
            'distinct_ref_states_estimate': 16 * len(states),
            'distinct_ref_states_measure': ('reference-state digests after each step; workers report the '
                                            '1-in-16 sample whose digest starts with 0, the union is '
                                            'counted and multiplied by 16 (0 for worlds without a '
                                            'per-step reference state: C03, C04, C08, C16, C17)'),
            'fault_fired': {k[6:]: v for k, v in sorted(stats.items()) if k.startswith('fault:')},
            'knobs': {k[5:]: v for k, v in sorted(stats.items()) if k.startswith('knob:')},
            'probes': {k[6:]: v for k, v in sorted(stats.items()) if k.startswith('probe:')},
            'ops': {k[3:]: v for k, v in sorted(stats.items()) if k.startswith('op:')},
            'outcomes': {k[4:]: v for k, v in sorted(stats.items()) if k.startswith('out:')},
            'guarded': {k[8:]: v for k, v in sorted(stats.items()) if k.startswith('guarded:')},
            'oracle_evaluations': {k[7:]: v for k, v in sorted(stats.items()) if k.startswith('oracle:')},
            'setup_rejected': dict(rejected),
            'real_components': getattr(mod, 'REAL', []),
            'stub_components': getattr(mod, 'STUB', []),
            'known_findings_printed': printed,
            'active_guards': findings.active_guards(prop),
            'exhaustive': False,
        },
        'assumptions': getattr(mod, 'ASSUMPTIONS', []),
        'wall_s': round(wall, 2),
        'violations': 1 if exit_code == engine.EXIT_VIOLATION else 0,
    }
    if os.path.realpath(env.REPO) == '/repo':
        # runs against scratch copies (mutants) never touch the evidence files
        os.makedirs(os.path.join(env.VERIF_DIR, 'evidence'), exist_ok=True)
        with open(os.path.join(env.VERIF_DIR, 'evidence', f'{prop}.json'), 'w') as f:
            json.dump(ev, f, indent=1, sort_keys=True, default=repr)
    if exit_code == engine.EXIT_OK:
        _print(f'OK property={prop} tier={tier} runs={done} steps={steps} '
               f'distinct_nontrivial={len(nontrivial_digests)} rejected={rej} '
               f'wall={wall:.1f}s')
    return exit_code


def main(argv=None):
    ap = argparse.ArgumentParser()
    ap.add_argument('prop', nargs='?')
    ap.add_argument('tier', nargs='?', default=os.environ.get('VERIF_TIER', 'quick'))
    ap.add_argument('--replay')
    ap.add_argument('--replay-json')
    ap.add_argument('--runs', type=int)
    args = ap.parse_args(argv)
    if args.replay:
        args.replay = os.path.abspath(args.replay)
    if args.replay_json:
        args.replay_json = os.path.abspath(args.replay_json)
    if args.replay_json:
        return cmd_replay_json(args.replay_json)
    if args.prop not in PROPS:
        _print(f'unknown property {args.prop}; known: {sorted(PROPS)}')
        return engine.EXIT_HARNESS
    env.reexec_with_hashseed0()
    if args.replay:
        return cmd_replay(args.prop, args.replay)
    if args.tier == 'survey':
        return cmd_check(args.prop, 'quick', nruns=args.runs, survey=True)
    return cmd_check(args.prop, args.tier, nruns=args.runs)


if __name__ == '__main__':
    try:
        rc = main()
    except SystemExit:
        raise
    except BaseException:       # noqa: BLE001
        import traceback
        traceback.print_exc()
        print('HARNESS-ERROR uncaught exception in the check driver', flush=True)
        rc = engine.EXIT_HARNESS
    sys.stdout.flush()
    sys.exit(rc)
