"""Helpers shared by the world modules."""
from __future__ import annotations

import collections
import os
import shutil

from .engine import Violation, SetupRejected, Unresolvable, digest  # noqa: F401


class Outcome:
    """Result of calling real code: value or exception (never both)."""
    __slots__ = ('value', 'exc')

    def __init__(self, value=None, exc=None):
        self.value = value
        self.exc = exc

    @property
    def raised(self):
        return self.exc is not None

    @property
    def cls(self):
        return 'raised' if self.exc is not None else 'ok'

    def exc_name(self):
        return type(self.exc).__name__ if self.exc is not None else None


def call(fn, *a, **kw) -> Outcome:
    """Call real (toolbox) code.  Every exception is an outcome judged by an
    oracle, except the ones that mean the harness must stop."""
    try:
        return Outcome(value=fn(*a, **kw))
    except (KeyboardInterrupt, SystemExit):
        raise
    except BaseException as e:      # noqa: BLE001
        return Outcome(exc=e)


class SlowRefusal(BaseException):
    """Raised by time_limit() inside a call that is *expected to be refused* and is taking
    very long to say so."""


class time_limit:
    """with time_limit(s): ... - SIGALRM based; only used around calls whose refusal is
    expected.  The generated classes (python_jsonschema_objects) put repr() of the offending
    objects into their ValidationError messages and repr() of an asset walks everything
    linked to it: in a densely linked model one refusal can take minutes (150 s measured
    with 20 associations).  That is the speed of a dependency, not a property decided here;
    the refusal is cut short and counted as a refusal (same event either way)."""

    def __init__(self, seconds):
        self.seconds = seconds

    def __enter__(self):
        import signal

        def handler(signum, frame):
            raise SlowRefusal()
        self._old = signal.signal(signal.SIGALRM, handler)
        signal.setitimer(signal.ITIMER_REAL, self.seconds)
        return self

    def __exit__(self, *a):
        import signal
        signal.setitimer(signal.ITIMER_REAL, 0)
        signal.signal(signal.SIGALRM, self._old)
        return False


class BaseWorld:
    _dir_counter = 0

    def __init__(self, cfg, desc):
        self.cfg = cfg
        self.desc = desc
        self.stats = collections.Counter()
        self.guards = set(cfg.get('guards', []))
        BaseWorld._dir_counter += 1
        self.dir = os.path.join(os.getcwd(), f'run{os.getpid()}_{BaseWorld._dir_counter}')
        os.makedirs(self.dir, exist_ok=True)
        self._nfile = 0
        self._log_state = None
        if cfg.get('debug_log'):
            self._debug_logging_on()

    def _debug_logging_on(self):
        """log_level = DEBUG (a setting of default.conf): every logger.debug call and every
        'if logger.isEnabledFor(DEBUG)' block of the toolbox runs; records are formatted
        and then dropped instead of filling the scratch disk."""
        import logging

        class _Sink:
            def write(self, _):
                return 0

            def flush(self):
                pass
        lg = logging.getLogger('maltoolbox')
        handlers = [h for h in lg.handlers if isinstance(h, logging.StreamHandler)]
        self._log_state = (lg, lg.level, [(h, h.stream) for h in handlers], logging.raiseExceptions)
        # a record whose arguments do not fit its format (e.g. '%d' with the id None of an
        # object that was refused) is dropped silently, as in production
        logging.raiseExceptions = False
        for h in handlers:
            h.stream = _Sink()
        lg.setLevel(logging.DEBUG)
        self.count('knob:debug_logging')

    def _debug_logging_off(self):
        if self._log_state is not None:
            import logging
            lg, level, streams, logging.raiseExceptions = self._log_state
            lg.setLevel(level)
            for h, st in streams:
                h.stream = st
            self._log_state = None

    def path(self, name: str) -> str:
        return os.path.join(self.dir, name)

    def fresh_path(self, ext: str) -> str:
        self._nfile += 1
        return os.path.join(self.dir, f'f{self._nfile}{ext}')

    def count(self, key: str, n: int = 1):
        self.stats[key] += n

    def nontrivial(self) -> bool:
        return True

    def finish(self):
        pass

    def close(self):
        self._debug_logging_off()
        shutil.rmtree(self.dir, ignore_errors=True)


def weighted(rng, table):
    """table: list of (weight, item); one rng draw."""
    total = sum(w for w, _ in table)
    x = rng.random() * total
    acc = 0.0
    for w, item in table:
        acc += w
        if x < acc:
            return item
    return table[-1][1]
