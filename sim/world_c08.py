"""World for C08: the apriori analysis must compute the greatest fixed point of
the viability / necessity equations, whatever the storage order.

One run = one abstract graph, materialised k times in orders the user does not
control: (hand) add_node in a permuted order with permuted child / parent list
order, (dict) AttackGraph._from_dict of a serialisation with permuted key order,
(model) generated from a language and a model whose assets were added in a
permuted order.  After each materialisation: calculate_viability_and_necessity,
labels compared with the reference fixed point and with the first
materialisation.
"""
from __future__ import annotations

import copy
import random

from .engine import Violation, SetupRejected, Unresolvable
from .lang import Lang, canon
from .refgraph import RefGraph, RNode
from .world import BaseWorld, call, weighted
from . import findings, world_m

RULE = ('one run = one abstract graph (<=14 nodes hand-built: all five step types, cycles, self-loops, '
        'sources with and without parents, TTC absent / Enabled / Disabled / distribution; or a graph '
        'generated from a seeded language + model) materialised 3-6 times in seeded storage orders '
        '(node order, child / parent list order, dict key order, order assets were added); each '
        'materialisation is analysed and compared with the greatest fixed point computed on the '
        'reference graph and with the first materialisation. non-trivial = >=2 distinct orders, >=1 '
        'source that makes something non-viable or unnecessary and >=1 or/and step with >=2 parents; '
        'distinct = distinct event-log digest')
REAL = ['maltoolbox.attackgraph.analyzers.apriori', 'maltoolbox.attackgraph.AttackGraph (add_node, '
        '_from_dict, generation)', 'maltoolbox.model.Model', 'maltoolbox.language.*']
STUB = []
ASSUMPTIONS = [
    'reference: downward iteration of the equations from all-True on sim/refgraph.py (gfp_labels); '
    'unique greatest fixed point because the operator is monotone',
    '"TTC is a probability distribution" = a TTC function other than Enabled / Disabled; composite TTC '
    'expressions on or/and steps are not generated (ambiguous in the property)',
    'analysis is only judged on graphs whose or/and labels are at their defaults',
    'structure of model-generated graphs (nodes, edges, statuses) is adopted from the implementation (C01/C02)',
]

TTC_NONE = None
TTC_EN = {'type': 'function', 'name': 'Enabled', 'arguments': []}
TTC_DIS = {'type': 'function', 'name': 'Disabled', 'arguments': []}
TTC_EXP = {'type': 'function', 'name': 'Exponential', 'arguments': [0.1]}
TTC_BER = {'type': 'function', 'name': 'Bernoulli', 'arguments': [0.5]}


def gen_abstract(rng, guards, tier='quick'):
    n = rng.randint(1, 14) if rng.random() < 0.8 else rng.randint(1, 6)
    if tier == 'thorough' and rng.random() < 0.3:
        n = rng.randint(10, 30)
    nodes = []
    for i in range(n):
        typ = weighted(rng, [(5, 'or'), (5, 'and'), (3, 'defense'), (1, 'exist'), (1, 'notExist')])
        d = {'type': typ, 'name': f's{i}'}
        if typ == 'defense':
            d['defense_status'] = rng.choice([0.0, 1.0, 1.0, 0.0, 0.5, 0.9999999999999999, 1e-12])
            d['ttc'] = copy.deepcopy(rng.choice([TTC_NONE, TTC_EN, TTC_DIS, TTC_BER]))
        elif typ in ('exist', 'notExist'):
            d['existence_status'] = rng.random() < 0.5
            d['ttc'] = None
        else:
            d['ttc'] = copy.deepcopy(rng.choice([TTC_NONE, TTC_NONE, TTC_EN, TTC_DIS, TTC_EXP, TTC_BER, {}]))
            if 'ttc_gate' in guards and d['ttc'] and d['ttc']['name'] not in ('Enabled', 'Disabled'):
                d['ttc'] = None
        nodes.append(d)
    edges = []
    dens = rng.choice([0.08, 0.15, 0.3]) if n <= 14 else rng.choice([0.04, 0.08, 0.12])
    for i in range(n):
        for j in range(n):
            if i == j:
                if rng.random() < 0.05 and 'self_loop' not in guards:
                    edges.append([i, j])
            elif rng.random() < dens:
                # sources rarely have parents
                if nodes[j]['type'] in ('defense', 'exist', 'notExist') and rng.random() < 0.8:
                    continue
                edges.append([i, j])
    return {'nodes': nodes, 'edges': edges}


def new_run(rng, tier):
    guards = findings.active_guards('C08')
    cfg = {'prop': 'C08', 'guards': guards, 'steps': rng.randint(3, 6)}
    if rng.random() < 0.8:
        return cfg, {'kind': 'abstract', 'graph': gen_abstract(rng, set(guards), tier)}
    # graph from a language + model
    spec, src = world_m.pick_language(rng, tier, p_corelang=0.01,
                                      gen_cfg={'expr_depth': 2, 'max_types': 4,
                                               'composite_ttc': False})
    mcfg = {'prop': 'setup', 'guards': [], 'steps': rng.randint(3, 9), 'n_models': 1,
            'odd_names': False, 'p_invalid': 0.0, 'p_reuse': 0.0,
            'w': {'add_asset': 6, 'set_defense': 2, 'remove_asset': 0, 'add_assoc': 5,
                  'remove_assoc': 0, 'remove_from_assoc': 0, 'add_attacker': 0,
                  'remove_attacker': 0, 'add_ep': 0, 'remove_ep': 0, 'restart': 0,
                  'foreign': 0, 'set_extras': 0, 'set_assoc_extras': 0}}
    mdesc = {'spec': spec, 'source': src, 'model_names': ['model', 'm2']}
    ops = []
    try:
        mw = world_m.ModelWorld(mcfg, mdesc)
        try:
            for _ in range(mcfg['steps'] if src != 'corelang' else 3):
                op = mw.gen_op(rng)
                if op is None:
                    break
                mw.apply(op)
                # make ids and names explicit so that the model is the same in any order
                if op['op'] == 'add_asset':
                    ra = mw.refs[0].assets.get(op['h'])
                    if ra is None or not ra.live:
                        continue            # refused: not part of the model
                    op = dict(op, id=ra.id, name=ra.name, allow_dup=True)
                ops.append(op)
        finally:
            mw.close()
    except (SetupRejected, Violation):
        pass
    cfg['mcfg'] = mcfg
    return cfg, {'kind': 'model', 'spec': spec, 'source': src, 'model_ops': ops}


class World(BaseWorld):
    def __init__(self, cfg, desc):
        super().__init__(cfg, desc)
        from maltoolbox.attackgraph import AttackGraph, AttackGraphNode
        from maltoolbox.attackgraph.analyzers import apriori
        self.AttackGraph, self.AttackGraphNode, self.apriori = AttackGraph, AttackGraphNode, apriori
        self.kind = desc['kind']
        self.first = None
        self.orders = set()
        self.nmat = 0
        self.interesting = False
        self.flips = set()
        if self.kind == 'abstract':
            g = desc['graph']
            self.ref = RefGraph()
            for i, d in enumerate(g['nodes']):
                self.ref.add_node(RNode(f'n{i}', id=i, name=d['name'], type=d['type'],
                                        ttc=d.get('ttc'), defense_status=d.get('defense_status'),
                                        existence_status=d.get('existence_status')))
            for i, j in g['edges']:
                self.ref.link(f'n{i}', f'n{j}')
            self._set_expected()
            if any(i == j for i, j in g['edges']):
                self.count('probe:self_loop')
        else:
            if desc.get('source') == 'corelang':
                self.count('probe:corelang')
            self.ref = None
            self.expected = None

    def _set_expected(self):
        lab = self.ref.gfp_labels()
        self.expected = {self.ref.nodes[h].full_name if self.kind == 'model' else h: v
                         for h, v in lab.items()}
        ref = self.ref
        srcs = [h for h in ref.order if ref.nodes[h].type in ('defense', 'exist', 'notExist')
                and lab[h] != (True, True) and ref.children(h)]
        multi = [h for h in ref.order if ref.nodes[h].type in ('or', 'and')
                 and len(set(ref.parents(h))) >= 2]
        self.interesting = bool(srcs) and bool(multi)
        if any(RefGraph.ttc_is_distribution(ref.nodes[p].ttc) and not lab[p][1]
               for p in ref.order if ref.children(p)):
            self.count('probe:unnecessary_parent_with_distribution_ttc')
        if any(lab[h] != (True, True) for h in ref.order if ref.nodes[h].type in ('or', 'and')):
            self.count('probe:some_step_relabelled')
        # cycles
        if self._has_cycle():
            self.count('probe:cycle')

    def _has_cycle(self):
        ref = self.ref
        color = {}

        def dfs(h):
            color[h] = 1
            for c in ref.children(h):
                if color.get(c) == 1 or (color.get(c) is None and dfs(c)):
                    return True
            color[h] = 2
            return False
        return any(color.get(h) is None and dfs(h) for h in ref.order)

    # -------------------------------------------------------------------- ops
    def gen_op(self, rng):
        if self.kind == 'abstract':
            n = len(self.ref.order)
            perm = list(range(n))
            rng.shuffle(perm)
            eperm = list(range(len(self.ref.edges)))
            rng.shuffle(eperm)
            pre = []
            if rng.random() < 0.25:
                # sources labelled beforehand with the public per-node function
                pre = [i for i in range(n) if self.ref.nodes[f'n{i}'].type in
                       ('defense', 'exist', 'notExist') and rng.random() < 0.6]
            comp = []
            if rng.random() < 0.3:
                # an attacker already holds some steps: labels depend on the graph only
                comp = [i for i in range(n) if rng.random() < 0.3]
            op = {'op': 'analyse', 'mat': rng.choice(['hand', 'hand', 'dict']),
                  'perm': perm, 'eperm': eperm, 'pre_eval': pre, 'compromised': comp}
            if op['mat'] == 'dict' and rng.random() < 0.3:
                op['drop_labels'] = True
            if op['mat'] == 'hand' and n >= 2 and rng.random() < 0.25:
                # the graph grows: the first k nodes are analysed on their own, the labels
                # are put back to their defaults, the other nodes are added, then the analysis
                op['staged'] = rng.randint(1, n - 1)
            return op
        nassets = sum(1 for o in self.desc['model_ops'] if o['op'] == 'add_asset')
        perm = list(range(nassets))
        if self.nmat:
            rng.shuffle(perm)
        # defenses switched in the graph after it was generated (the model is not told)
        return {'op': 'analyse', 'mat': 'model', 'perm': perm,
                'flip': [rng.randrange(1000) for _ in range(rng.choice([0, 0, 1, 2]))]}

    def apply(self, op):
        if op['op'] != 'analyse':
            raise Unresolvable()
        self.count('op:analyse_' + op['mat'])
        if op['mat'] == 'model':
            g, key = self._mat_model(op)
        elif op['mat'] == 'dict':
            g, key = self._mat_dict(op)
        else:
            g, key = self._mat_hand(op)
        self.nmat += 1
        self.orders.add(canon([op['mat'], op.get('perm'), op.get('eperm')]))
        if op.get('pre_eval') and op['mat'] != 'model':
            by_key = {key(n): n for n in g.nodes}
            for i in op['pre_eval']:
                n = by_key.get(f'n{i}')
                if n is not None and n.type in ('defense', 'exist', 'notExist'):
                    call(self.apriori.evaluate_viability_and_necessity, n)
            self.count('probe:sources_pre_evaluated')
        if op.get('compromised') and op['mat'] != 'model':
            from maltoolbox.attackgraph import Attacker
            by_key = {key(n): n for n in g.nodes}
            att = Attacker(name='early', entry_points=[], reached_attack_steps=[])
            ids = [by_key[f'n{i}'].id for i in op['compromised'] if f'n{i}' in by_key]
            if ids:
                call(g.add_attacker, att, reached_attack_steps=ids, entry_points=ids[:1])
                self.count('probe:attacker_present_during_analysis')
        o = call(self.apriori.calculate_viability_and_necessity, g)
        where = f'analysis of materialisation {op["mat"]} order {op.get("perm")}'
        if o.raised:
            raise Violation('C08.gfp', f'{where}: calculate_viability_and_necessity raised {o.exc!r}')
        got = {key(n): (n.is_viable, n.is_necessary) for n in g.nodes}
        exp = self.expected
        self.count('oracle:C08.gfp')
        if set(got) != set(exp):
            raise SetupRejected('c08:node sets differ')
        info = {key(n): n for n in g.nodes}
        for k in sorted(exp):
            if got[k] != exp[k]:
                n = info[k]
                if n.type in ('defense', 'exist', 'notExist'):
                    cl = 'C08.sources'
                elif not n.parents:
                    cl = 'C08.parentless'
                else:
                    cl = 'C08.gfp'
                raise Violation(cl, f'{where}: {n.type} step {k} (ttc {n.ttc}, parents '
                                    f'{[(key(p), p.type, p.is_viable, p.is_necessary, (p.ttc or {}).get("name")) for p in n.parents]}) '
                                    f'is labelled (viable, necessary) = {got[k]}, the greatest '
                                    f'fixed point gives {exp[k]}')
        y = getattr(self, '_younger', None)
        if y is not None:
            self._younger = None
            touched = [n.full_name for n in y.nodes
                       if n.type in ('or', 'and') and not (n.is_viable and n.is_necessary)]
            if touched:
                raise Violation('C08.gfp', f'{where}: analysing one graph relabelled steps of another '
                                           f'graph built from the same model: {touched[:4]}')
        self.count('oracle:C08.order_independent')
        if self.first is None:
            self.first = got
        elif got != self.first:
            diff = [k for k in sorted(got) if got[k] != self.first[k]]
            raise Violation('C08.order_independent', f'{where}: labels of {diff[:5]} differ from '
                                                     f'the first materialisation')
        self.count('out:ok')
        return ['analyse', 'ok', canon(sorted(got.items()))[:0]]

    def _mk_node(self, d):
        kw = dict(type=d.type, name=d.name, ttc=copy.deepcopy(d.ttc))
        if d.defense_status is not None:
            kw['defense_status'] = d.defense_status
        if d.existence_status is not None:
            kw['existence_status'] = d.existence_status
        return self.AttackGraphNode(**kw)

    def _mat_hand(self, op):
        ref = self.ref
        n = len(ref.order)
        perm = [i for i in op['perm'] if i < n] + [i for i in range(n) if i not in op['perm']]
        g = self.AttackGraph()
        nodes = {}
        ne = len(ref.edges)
        eperm = [i for i in op.get('eperm', []) if i < ne] + \
                [i for i in range(ne) if i not in op.get('eperm', [])]
        stages = [perm]
        if op.get('staged') and 0 < op['staged'] < n:
            stages = [perm[:op['staged']], perm[op['staged']:]]
        linked = set()
        for k, stage in enumerate(stages):
            for i in stage:
                h = f'n{i}'
                node = self._mk_node(ref.nodes[h])
                g.add_node(node, node_id=i)
                nodes[h] = node
            todo = [i for i in eperm if i not in linked
                    and ref.edges[i][0] in nodes and ref.edges[i][1] in nodes]
            for i in todo:
                p, c = ref.edges[i]
                nodes[p].children.append(nodes[c])
            for i in reversed(todo):
                p, c = ref.edges[i]
                nodes[c].parents.append(nodes[p])
            linked.update(todo)
            if k + 1 < len(stages):
                call(self.apriori.calculate_viability_and_necessity, g)
                for node in g.nodes:
                    node.is_viable = node.is_necessary = True
                self.count('probe:analysed_before_the_graph_was_complete')
        rev = {id(v): k for k, v in nodes.items()}
        return g, lambda node: rev[id(node)]

    def _mat_dict(self, op):
        # serialise a canonical materialisation, permute the key order, load it
        g0, key0 = self._mat_hand({'perm': list(range(len(self.ref.order))), 'eperm': []})
        d = g0._to_dict()
        steps = list(d['attack_steps'].items())
        n = len(steps)
        perm = [i for i in op['perm'] if i < n] + [i for i in range(n) if i not in op['perm']]
        d2 = {'attack_steps': {steps[i][0]: steps[i][1] for i in perm}, 'attackers': {}}
        if op.get('drop_labels'):
            # a file that somebody wrote by hand (or an older release): no label entries -
            # the steps are at their defaults
            for v in d2['attack_steps'].values():
                v.pop('is_viable', None)
                v.pop('is_necessary', None)
            self.count('probe:graph_dict_without_label_entries')
        o = call(self.AttackGraph._from_dict, d2)
        if o.raised and op.get('drop_labels'):
            raise Violation('C08.parentless', f'_from_dict of a graph without is_viable / is_necessary '
                                              f'entries raised {o.exc!r}')
        if o.raised:
            raise SetupRejected('c08:_from_dict:' + o.exc_name())
        g = o.value
        return g, lambda node: f'n{node.id}'

    def _mat_model(self, op):
        cfg = dict(self.cfg['mcfg'])
        mw = world_m.ModelWorld(cfg, {'spec': self.desc['spec'], 'source': self.desc.get('source'),
                                      'model_names': ['model', 'm2']})
        self._mw = mw
        adds = [o for o in self.desc['model_ops'] if o['op'] == 'add_asset']
        rest = [o for o in self.desc['model_ops'] if o['op'] != 'add_asset']
        n = len(adds)
        perm = [i for i in op['perm'] if i < n] + [i for i in range(n) if i not in op['perm']]
        for o in [adds[i] for i in perm] + rest:
            try:
                mw.apply(o)
            except Unresolvable:
                continue
        o = call(self.AttackGraph, mw.lg, mw.models[0])
        if o.raised:
            raise SetupRejected('generate:' + o.exc_name())
        g = o.value
        if self.ref is None:
            dnodes = [nd for nd in g.nodes if nd.type == 'defense']
            self.flips = {dnodes[i % len(dnodes)].full_name for i in op.get('flip', [])} if dnodes else set()
        for nd in g.nodes:
            if nd.full_name in self.flips:
                nd.defense_status = 0.0 if nd.defense_status == 1.0 else 1.0
                self.count('probe:defense_switched_in_the_graph_only')
        self._younger = None
        if op.get('second_graph', True) and self.nmat % 2 == 1:
            # a second graph is built from the same model afterwards; the *older* one is the
            # one that gets analysed, the younger one must stay as it is
            o2 = call(self.AttackGraph, mw.lg, mw.models[0])
            if not o2.raised:
                self._younger = o2.value
                self.count('probe:older_of_two_graphs_analysed')
        if self.ref is None:
            ref = RefGraph()
            hm = {}
            for i, nd in enumerate(g.nodes):
                h = f'n{i}'
                hm[id(nd)] = h
                ref.add_node(RNode(h, id=nd.id, name=nd.name, type=nd.type,
                                   asset=str(nd.asset.name), ttc=nd.ttc,
                                   defense_status=None if nd.defense_status is None
                                   else float(nd.defense_status),
                                   existence_status=nd.existence_status))
            for nd in g.nodes:
                for c in nd.children:
                    ref.link(hm[id(nd)], hm[id(c)])
            self.ref = ref
            # composite TTCs on or/and steps: not judged
            for h in ref.order:
                t = ref.nodes[h].ttc
                if t and 'name' not in t and ref.nodes[h].type in ('or', 'and'):
                    raise SetupRejected('c08:composite ttc')
            self._set_expected()
        mw.close()
        return g, lambda node: node.full_name

    def nontrivial(self):
        return len(self.orders) >= 2 and self.interesting
