"""Registry: property id -> world module and budgets (counts, not wall time)."""

PROPS = {
    'C03': {'module': 'sim.world_l', 'quick': 3000, 'thorough': 150000, 'chunk': 50,
            'must_fire': {'quick': ['probe:noreach_chain_extended_twice',
                                    'fault:exception_mid_generation'],
                          'thorough': ['probe:noreach_chain_extended_twice',
                                       'fault:exception_mid_generation',
                                       'probe:corelang']}},
    'C05': {'module': 'sim.c05', 'quick': 4000, 'thorough': 300000, 'chunk': 40},
    'C06': {'module': 'sim.c06', 'quick': 3000, 'thorough': 150000, 'chunk': 40},
    'C07': {'module': 'sim.c07', 'quick': 2500, 'thorough': 120000, 'chunk': 25},
    'C09': {'module': 'sim.c09', 'quick': 3000, 'thorough': 200000, 'chunk': 30},
    'C10': {'module': 'sim.c10', 'quick': 1500, 'thorough': 60000, 'chunk': 20},
    'C11': {'module': 'sim.c11', 'quick': 3000, 'thorough': 200000, 'chunk': 30},
    'C12': {'module': 'sim.c12', 'quick': 3000, 'thorough': 150000, 'chunk': 30},
    'C13': {'module': 'sim.c13', 'quick': 3000, 'thorough': 150000, 'chunk': 30},
    'C14': {'module': 'sim.c14', 'quick': 2500, 'thorough': 120000, 'chunk': 30},
    'C08': {'module': 'sim.world_c08', 'quick': 4000, 'thorough': 250000, 'chunk': 50},
    'C04': {'module': 'sim.c04', 'quick': 1500, 'thorough': 60000, 'chunk': 20},
    'C17': {'module': 'sim.c17', 'quick': 1200, 'thorough': 60000, 'chunk': 20},
    'C18': {'module': 'sim.c18', 'quick': 2000, 'thorough': 80000, 'chunk': 30},
    'C19': {'module': 'sim.c19', 'quick': 2000, 'thorough': 80000, 'chunk': 30},
}
