"""Registry: property id -> world module and budgets (counts, not wall time)."""

PROPS = {
    'C03': {'module': 'sim.world_l', 'quick': 3000, 'thorough': 150000, 'chunk': 50,
            'must_fire': {'quick': ['probe:noreach_chain_extended_twice',
                                    'fault:exception_mid_generation'],
                          'thorough': ['probe:noreach_chain_extended_twice',
                                       'fault:exception_mid_generation',
                                       'probe:corelang']}},
}
