"""Registry: property id -> world module and budgets (counts, not wall time)."""

PROPS = {
    'C03': {'module': 'sim.world_l', 'quick': 3000, 'thorough': 150000, 'chunk': 50,
            'must_fire': {'quick': ['probe:noreach_chain_extended_twice',
                                    'fault:exception_mid_generation'],
                          'thorough': ['probe:noreach_chain_extended_twice',
                                       'fault:exception_mid_generation',
                                       'probe:corelang']}},
    'C05': {'module': 'sim.c05', 'quick': 4000, 'thorough': 300000, 'chunk': 40},
    'C06': {'module': 'sim.c06', 'quick': 3000, 'thorough': 150000, 'chunk': 40},
    'C07': {'module': 'sim.c07', 'quick': 2500, 'thorough': 120000, 'chunk': 25},
}
