"""Fault shims at the I/O seams of the toolbox (module-global injections).

Every shim delegates to the real call on a real path (scratch tmpfs); it adds
accounting and, when armed, one fault.  Installed per operation and removed
right after, so no state leaks between steps or runs.
"""
from __future__ import annotations

import builtins
import errno
import io


class FaultPlan:
    """kind: 'ENOSPC' | 'EIO'; at: 'open' | 'write' | 'close' | 'read';
    after_bytes: let this many bytes through before a write fault."""

    def __init__(self, kind='ENOSPC', at='write', after_bytes=0, mode_filter=None):
        self.kind = kind
        self.at = at
        self.after_bytes = after_bytes
        self.mode_filter = mode_filter      # 'w' or 'r' or None
        self.fired = 0
        self.opened = 0

    def err(self):
        code = errno.ENOSPC if self.kind == 'ENOSPC' else errno.EIO
        self.fired += 1
        return OSError(code, f'injected {self.kind} at {self.at}')


class _FaultyFile:
    def __init__(self, f, plan: FaultPlan):
        self._f = f
        self._plan = plan
        self._written = 0

    def write(self, data):
        p = self._plan
        if p.at == 'write' and not p.fired:
            room = p.after_bytes - self._written
            if room <= 0:
                raise p.err()
            if len(data) > room:
                self._f.write(data[:room])       # short write, then the error
                self._written += room
                raise p.err()
        self._written += len(data)
        return self._f.write(data)

    def read(self, *a):
        p = self._plan
        if p.at == 'read' and not p.fired:
            raise p.err()
        return self._f.read(*a)

    def close(self):
        p = self._plan
        if p.at == 'close' and not p.fired:
            try:
                self._f.close()
            finally:
                raise p.err()
        return self._f.close()

    def __enter__(self):
        return self

    def __exit__(self, *exc):
        self.close()
        return False

    def __iter__(self):
        return iter(self._f)

    def __getattr__(self, name):
        return getattr(self._f, name)


def make_open(plan: FaultPlan | None, counter=None):
    def _open(file, mode='r', *a, **kw):
        if counter is not None:
            counter['opens'] = counter.get('opens', 0) + 1
        if plan is not None and (plan.mode_filter is None or plan.mode_filter in mode):
            plan.opened += 1
            if plan.at == 'open' and not plan.fired:
                raise plan.err()
            f = builtins.open(file, mode, *a, **kw)
            return _FaultyFile(f, plan)
        return builtins.open(file, mode, *a, **kw)
    return _open


class patched_open:
    """with patched_open([module, ...], plan): ...  (module-level name `open`)"""

    def __init__(self, modules, plan, counter=None):
        self.modules = modules
        self.fn = make_open(plan, counter)

    def __enter__(self):
        for m in self.modules:
            m.open = self.fn
        return self

    def __exit__(self, *exc):
        for m in self.modules:
            try:
                del m.open
            except AttributeError:
                pass
        return False
