"""Reference view of a MAL language specification + seeded generator.

`Lang` is test-side code: it never calls into maltoolbox.  It answers the
questions the reference models need (subtyping, resolved steps = the C03 fold,
defenses and defaults, association classes and their fields).

`gen_spec(rng, cfg)` draws a well-formed specification in exactly the dict
format the toolbox compiler / malc emit.
"""
from __future__ import annotations

import copy
import json
import os

from .env import VERIF_DIR

RESERVED = {'abstract', 'asset', 'associations', 'extends', 'include',
            'category', 'info', 'let', 'E', 'C', 'I', 'A'}

TYPE_NAMES = ['Host', 'Net', 'App', 'Data', 'User', 'Cred', 'Zone', 'Svc', 'Disk', 'Proc']
STEP_NAMES = ['access', 'read', 'deny', 'own', 'probe', 'use']
DEF_NAMES = ['hardened', 'patched', 'mfa']
EX_NAMES = ['hasPeer', 'noPeer']
FIELD_NAMES = ['hosts', 'nets', 'apps', 'data', 'users', 'creds', 'zones',
               'peers', 'owner', 'up', 'down', 'left', 'right', 'inner',
               'outer', 'src', 'dst']
ASSOC_NAMES = ['Conn', 'Exec', 'Owns', 'Holds', 'Link', 'runsOn', 'uses']
VAR_NAMES = ['allPeers', 'reach', 'scope']
TAGS = ['hidden', 'suppress', 'debug', 'Override']
DISTS = [('Exponential', [0.1]), ('Bernoulli', [0.5]), ('Gamma', [1.5, 2.0]),
         ('EasyAndCertain', []), ('HardAndUncertain', []), ('Uniform', [1.0, 4.0]),
         ('LogNormal', [0.25, 3.0])]


# ----------------------------------------------------------------------------
# reference view
# ----------------------------------------------------------------------------

class AssocInfo:
    __slots__ = ('idx', 'name', 'cls', 'lt', 'lf', 'lmin', 'lmax',
                 'rt', 'rf', 'rmin', 'rmax')

    def __repr__(self):
        return f'<{self.cls}: {self.lt}.[{self.lf}] -- [{self.rf}].{self.rt}>'


class Lang:
    def __init__(self, spec: dict):
        self.spec = spec
        self.types = {}
        self.order = []
        for a in spec['assets']:
            self.types[a['name']] = a
            self.order.append(a['name'])
        self._chain = {}
        self._steps = {}
        self.assocs: list[AssocInfo] = []
        seen = set()
        counts = {}
        uniq = []
        for a in spec['associations']:
            key = (a['name'], a['leftAsset'], a['rightAsset'])
            if key in seen:        # the language graph keeps the first only
                continue
            seen.add(key)
            uniq.append(a)
            counts[a['name']] = counts.get(a['name'], 0) + 1
        for a in uniq:
            i = AssocInfo()
            i.idx = len(self.assocs)
            i.name = a['name']
            i.cls = a['name'] if counts[a['name']] == 1 else \
                f"{a['name']}_{a['leftAsset']}_{a['rightAsset']}"
            i.lt, i.lf = a['leftAsset'], a['leftField']
            i.rt, i.rf = a['rightAsset'], a['rightField']
            i.lmin, i.lmax = a['leftMultiplicity']['min'], a['leftMultiplicity']['max']
            i.rmin, i.rmax = a['rightMultiplicity']['min'], a['rightMultiplicity']['max']
            self.assocs.append(i)
        self.assoc_by_cls = {i.cls: i for i in self.assocs}
        self.dup_names = {n for n, c in counts.items() if c > 1}

    # -- inheritance ---------------------------------------------------------
    def chain(self, t: str) -> list[str]:
        """[root, ..., t]"""
        c = self._chain.get(t)
        if c is None:
            c = []
            cur = t
            while cur:
                c.append(cur)
                cur = self.types[cur]['superAsset']
            c.reverse()
            self._chain[t] = c
        return c

    def is_sub(self, t: str, u: str) -> bool:
        return u in self.chain(t)

    def subtypes(self, u: str) -> list[str]:
        return [t for t in self.order if self.is_sub(t, u)]

    def concrete(self) -> list[str]:
        return [t for t in self.order if not self.types[t]['isAbstract']]

    def root(self, t: str) -> str:
        return self.chain(t)[0]

    def related(self, t: str, u: str) -> bool:
        return self.root(t) == self.root(u)

    # -- the C03 fold (reference semantics) ------------------------------------
    def steps(self, t: str) -> dict:
        """name -> resolved step dict (deep copies; insertion order = first
        declaration order, root first)."""
        r = self._steps.get(t)
        if r is None:
            r = {}
            for anc in self.chain(t):
                for st in self.types[anc]['attackSteps']:
                    n = st['name']
                    if n not in r:
                        r[n] = copy.deepcopy(st)
                    elif not st['reaches']:
                        continue
                    elif st['reaches']['overrides']:
                        r[n] = copy.deepcopy(st)
                    else:
                        cur = r[n]
                        inherited = list(cur['reaches']['stepExpressions']) \
                            if cur['reaches'] else []
                        cur['reaches'] = {
                            'overrides': False,
                            'stepExpressions': inherited + copy.deepcopy(
                                st['reaches']['stepExpressions'])}
            self._steps[t] = r
        return r

    def defenses(self, t: str) -> dict:
        """defense name -> default value"""
        out = {}
        for n, st in self.steps(t).items():
            if st['type'] == 'defense':
                ttc = st['ttc']
                out[n] = 1.0 if (ttc and ttc.get('name') == 'Enabled') else 0.0
        return out

    # -- fields ----------------------------------------------------------------
    def fields_from(self, t: str) -> list[tuple[str, AssocInfo, str, str]]:
        """Fields navigable from an asset of type t:
        (fieldname, assoc, side-holding-the-targets, target type)."""
        out = []
        for a in self.assocs:
            # asset in left field (type lt) navigates through rf to rt assets
            if self.is_sub(t, a.lt):
                out.append((a.rf, a, 'right', a.rt))
            if self.is_sub(t, a.rt):
                out.append((a.lf, a, 'left', a.lt))
        return out

    def all_field_names(self) -> list[str]:
        s = []
        for a in self.assocs:
            for f in (a.lf, a.rf):
                if f not in s:
                    s.append(f)
        return s

    def variable(self, t: str, name: str):
        for anc in reversed(self.chain(t)):
            for v in self.types[anc]['variables']:
                if v['name'] == name:
                    return v['stepExpression']
        return None

    def variables_visible(self, t: str) -> list[tuple[str, str]]:
        """(name, defining type), nearest definition wins"""
        out = {}
        for anc in self.chain(t):
            for v in self.types[anc]['variables']:
                out[v['name']] = anc
        return list(out.items())


def canon(obj) -> str:
    return json.dumps(obj, sort_keys=True, default=str)


# ----------------------------------------------------------------------------
# corpus
# ----------------------------------------------------------------------------

_corpus_cache = {}


def corpus(name: str) -> dict:
    if name not in _corpus_cache:
        with open(os.path.join(VERIF_DIR, 'corpus', name + '.json')) as f:
            _corpus_cache[name] = json.load(f)
    return copy.deepcopy(_corpus_cache[name])


def corpus_names() -> list[str]:
    d = os.path.join(VERIF_DIR, 'corpus')
    return sorted(f[:-5] for f in os.listdir(d) if f.endswith('.json'))


# ----------------------------------------------------------------------------
# generator
# ----------------------------------------------------------------------------

def _pick_names(rng, pool, n):
    pool = list(pool)
    rng.shuffle(pool)
    return pool[:n]


def gen_ttc(rng, kind: str, allow_composite: bool):
    """kind: 'defense' | 'step'"""
    if kind == 'defense':
        r = rng.random()
        if r < 0.3:
            return None
        if r < 0.6:
            return {'type': 'function', 'name': 'Enabled', 'arguments': []}
        if r < 0.9:
            return {'type': 'function', 'name': 'Disabled', 'arguments': []}
        return {'type': 'function', 'name': 'Bernoulli', 'arguments': [0.5]}
    r = rng.random()
    if r < 0.45:
        return None
    if r < 0.55:
        return {'type': 'function', 'name': rng.choice(['Enabled', 'Disabled']),
                'arguments': []}
    if r < 0.85 or not allow_composite:
        n, a = rng.choice(DISTS)
        return {'type': 'function', 'name': n, 'arguments': list(a)}
    return _gen_ttc_expr(rng, 2)


def _gen_ttc_atom(rng, depth):
    r = rng.random()
    if r < 0.5 or depth <= 0:
        n, a = rng.choice(DISTS)
        return {'type': 'function', 'name': n, 'arguments': list(a)}
    if r < 0.8:
        return {'type': 'number', 'value': float(rng.choice([1, 2, 3, 0.5, 10, 2.25]))}
    return _gen_ttc_expr(rng, depth - 1)


def _gen_ttc_expr(rng, depth, max_factors=2):
    """Binary tree restricted to what the grammar can express:
    +,- left-assoc over terms; *,/ left-assoc over facts; ^ binary over atoms.
    By default products have two factors only (three-factor products are a
    known compiler defect, see known_findings)."""
    r = rng.random()
    if r < 0.35:
        return {'type': rng.choice(['addition', 'subtraction']),
                'lhs': _gen_ttc_expr(rng, depth - 1) if depth > 0 and rng.random() < 0.4
                else _gen_ttc_term(rng, depth, max_factors),
                'rhs': _gen_ttc_term(rng, depth, max_factors)}
    return _gen_ttc_term(rng, depth, max_factors, force=True)


def _gen_ttc_term(rng, depth, max_factors=2, force=False):
    r = rng.random()
    if r < 0.4 or force:
        lhs = _gen_ttc_fact(rng, depth)
        if max_factors > 2 and rng.random() < 0.5:
            lhs = {'type': rng.choice(['multiplication', 'division']),
                   'lhs': lhs, 'rhs': _gen_ttc_fact(rng, depth)}
        return {'type': rng.choice(['multiplication', 'division']),
                'lhs': lhs, 'rhs': _gen_ttc_fact(rng, depth)}
    return _gen_ttc_fact(rng, depth)


def _gen_ttc_fact(rng, depth):
    if rng.random() < 0.2:
        return {'type': 'exponentiation', 'lhs': _gen_ttc_atom(rng, depth),
                'rhs': _gen_ttc_atom(rng, depth)}
    return _gen_ttc_atom(rng, depth)


class _Gen:
    def __init__(self, rng, cfg):
        self.rng = rng
        self.cfg = cfg
        self.assets = []        # dicts under construction
        self.assocs = []
        self.by_name = {}

    # --- helpers on the partial language -----------------------------------
    def chain(self, t):
        c = []
        while t:
            c.append(t)
            t = self.by_name[t]['superAsset']
        return c[::-1]

    def is_sub(self, t, u):
        return u in self.chain(t)

    def root(self, t):
        return self.chain(t)[0]

    def family(self, t):
        r = self.root(t)
        return [a['name'] for a in self.assets if self.root(a['name']) == r]

    def fields_from(self, t):
        out = []
        for a in self.assocs:
            if self.is_sub(t, a['leftAsset']):
                out.append((a['rightField'], a['rightAsset']))
            if self.is_sub(t, a['rightAsset']):
                out.append((a['leftField'], a['leftAsset']))
        return out

    def field_names_in_family(self, t):
        names = set()
        for u in self.family(t):
            for f, _ in self.fields_from(u):
                names.add(f)
        return names

    def step_names(self, t):
        out = {}
        for anc in self.chain(t):
            for st in self.by_name[anc]['attackSteps']:
                out.setdefault(st['name'], st['type'])
        return out

    def step_names_in_family(self, t):
        names = set()
        for u in self.family(t):
            names.update(self.step_names(u))
        return names

    def subtypes(self, u):
        return [a['name'] for a in self.assets if self.is_sub(a['name'], u)]

    def vars_visible(self, t):
        out = {}
        for anc in self.chain(t):
            for v in self.by_name[anc]['variables']:
                out[v['name']] = (anc, v)
        return out

    # --- navigation expressions ---------------------------------------------
    def nav(self, t, depth, allow_var=True):
        """Return (expr, result_type) navigating away from t, or None."""
        rng = self.rng
        fields = self.fields_from(t)
        if not fields:
            return None
        r = rng.random()
        if depth <= 0 or r < 0.40:
            f, u = rng.choice(fields)
            return {'type': 'field', 'name': f}, u
        if r < 0.58:
            lhs = self.nav(t, depth - 1, allow_var)
            if lhs is None:
                return None
            rhs = self.nav(lhs[1], depth - 1, allow_var)
            if rhs is None:
                return lhs
            return {'type': 'collect', 'lhs': lhs[0], 'rhs': rhs[0]}, rhs[1]
        if r < 0.74:
            lhs = self.nav(t, depth - 1, allow_var)
            if lhs is None:
                return None
            rhs = None
            for _ in range(4):
                cand = self.nav(t, depth - 1, allow_var)
                if cand and cand[1] == lhs[1]:
                    rhs = cand
                    break
            if rhs is None:
                rhs = (copy.deepcopy(lhs[0]), lhs[1])
            op = rng.choice(['union', 'intersection', 'difference'])
            return {'type': op, 'lhs': lhs[0], 'rhs': rhs[0]}, lhs[1]
        if r < 0.82 and self.cfg.get('transitive', True):
            cands = [(f, u) for f, u in fields
                     if any(f2 == f for f2, _ in self.fields_from(u))]
            if cands:
                f, u = rng.choice(cands)
                return {'type': 'transitive',
                        'stepExpression': {'type': 'field', 'name': f}}, u
            f, u = rng.choice(fields)
            return {'type': 'field', 'name': f}, u
        if r < 0.92:
            inner = self.nav(t, depth - 1, allow_var)
            if inner is None:
                return None
            subs = [s for s in self.subtypes(inner[1])]
            s = rng.choice(subs)
            if s == inner[1] and rng.random() < 0.7:
                return inner
            return {'type': 'subType', 'subType': s,
                    'stepExpression': inner[0]}, s
        if allow_var:
            vs = self.vars_visible(t)
            if vs:
                name = rng.choice(sorted(vs))
                anc, v = vs[name]
                return {'type': 'variable', 'name': name}, v['_type']
        f, u = rng.choice(fields)
        return {'type': 'field', 'name': f}, u

    def reach_expr(self, t, depth):
        """A reaches expression from type t ending in an attack step."""
        rng = self.rng
        if rng.random() < 0.35:
            names = sorted(self.step_names(t))
            return {'type': 'attackStep', 'name': rng.choice(names)}
        n = self.nav(t, depth)
        if n is None:
            names = sorted(self.step_names(t))
            return {'type': 'attackStep', 'name': rng.choice(names)}
        expr, u = n
        names = sorted(self.step_names(u))
        if not names:
            names = sorted(self.step_names(t))
            return {'type': 'attackStep', 'name': rng.choice(names)}
        return {'type': 'collect', 'lhs': expr,
                'rhs': {'type': 'attackStep', 'name': rng.choice(names)}}


def gen_spec(rng, cfg: dict | None = None) -> dict:
    """Draw a well-formed language specification.

    cfg keys (all optional): max_types, max_assocs, max_steps, expr_depth,
    composite_ttc (bool), transitive (bool), ttc_factors (2|3), meta (bool),
    bias_noreach_chain (probability of planting the C03 shape).
    """
    cfg = dict(cfg or {})
    g = _Gen(rng, cfg)
    ntypes = rng.randint(1, cfg.get('max_types', 6))
    cats = _pick_names(rng, ['System', 'Network', 'People'], rng.randint(1, 2))
    tnames = _pick_names(rng, TYPE_NAMES, ntypes)
    meta_on = cfg.get('meta', True)

    def meta(p=0.3):
        m = {}
        if meta_on and rng.random() < p:
            m['user'] = rng.choice(['A thing.', 'Something else', 'x y z', '', 'C:\\temp\\new',
                                    '\\\\server\\share', 'tab\\there \\u2013 dash'])
        if meta_on and rng.random() < p / 2:
            m['developer'] = rng.choice(['note', 'todo: fix'])
        return m

    # 1. types in an inheritance forest
    for i, n in enumerate(tnames):
        parent = None
        if i > 0 and rng.random() < cfg.get('p_extends', 0.6):
            parent = rng.choice(tnames[:i])
        a = {'name': n, 'meta': meta(), 'category': rng.choice(cats),
             'isAbstract': rng.random() < 0.15, 'superAsset': parent,
             'variables': [], 'attackSteps': []}
        g.assets.append(a)
        g.by_name[n] = a
    if all(a['isAbstract'] for a in g.assets):
        g.assets[-1]['isAbstract'] = False
    # a type with a concrete descendant is fine being abstract; make leaves
    # concrete more often so that models can be built
    for a in g.assets:
        if a['isAbstract'] and not any(b['superAsset'] == a['name'] for b in g.assets):
            if rng.random() < 0.7:
                a['isAbstract'] = False

    # 2. associations
    nassoc = rng.randint(0, cfg.get('max_assocs', 5))
    used_assoc_keys = set()
    for _ in range(nassoc):
        lt = rng.choice(tnames)
        r = rng.random()
        if r < 0.25:
            rt = lt                                    # self association
        elif r < 0.4 and len(g.family(lt)) > 1:
            rt = rng.choice(g.family(lt))              # within a family
        else:
            rt = rng.choice(tnames)
        name = rng.choice(ASSOC_NAMES)
        if g.assocs and rng.random() < 0.15:
            # same name, same two types, declared the other way round
            prev = rng.choice(g.assocs)
            if prev['leftAsset'] != prev['rightAsset']:
                name, lt, rt = prev['name'], prev['rightAsset'], prev['leftAsset']
        if (name, lt, rt) in used_assoc_keys or (lt == rt and (name, rt, lt) in used_assoc_keys):
            # the language graph keeps only the first of two associations with one name
            # between the same (left, right) types; the compiler must keep both
            if not cfg.get('allow_same_signature_assocs') or rng.random() < 0.5:
                continue
        # field rf is a field *of lt's family*, lf a field of rt's family
        taken_l = g.field_names_in_family(lt) | g.step_names_in_family(lt)
        taken_r = g.field_names_in_family(rt) | g.step_names_in_family(rt)
        pool = list(FIELD_NAMES)
        rng.shuffle(pool)
        if g.assocs and rng.random() < 0.25:
            # bias: the same *pair* of field names as an association between other types
            prev = rng.choice(g.assocs)
            pool = [prev['rightField'], prev['leftField']] + pool
            if rng.random() < 0.5:
                pool = [prev['leftField'], prev['rightField']] + pool[2:]
        rf = next((f for f in pool if f not in taken_l), None)
        if rf is None:
            continue
        same_family = g.root(lt) == g.root(rt)
        lf = next((f for f in pool if f not in taken_r and
                   (f != rf)), None)
        if lf is None:
            continue
        if same_family and lf in taken_l | {rf}:
            lf = next((f for f in pool if f not in taken_r | taken_l | {rf}), None)
            if lf is None:
                continue

        def mult():
            k = rng.random()
            if k < 0.30:
                return {'min': 0, 'max': None}         # *
            if k < 0.45:
                return {'min': 1, 'max': None}         # 1..*
            if k < 0.65:
                return {'min': 0, 'max': 1}            # 0..1
            if k < 0.85:
                return {'min': 1, 'max': 1}            # 1
            lo = rng.randint(0, 2)
            return {'min': lo, 'max': rng.randint(max(lo, 1), 3)}  # n..m
        used_assoc_keys.add((name, lt, rt))
        g.assocs.append({'name': name, 'meta': meta(0.2),
                         'leftAsset': lt, 'leftField': lf, 'leftMultiplicity': mult(),
                         'rightAsset': rt, 'rightField': rf, 'rightMultiplicity': mult()})

    # 3. step *names and types* first (so that expressions can refer to them)
    max_steps = cfg.get('max_steps', 5)
    plant = rng.random() < cfg.get('bias_noreach_chain', 0.35)
    for a in g.assets:
        inherited = g.step_names(a['superAsset']) if a['superAsset'] else {}
        fam_fields = g.field_names_in_family(a['name'])
        k = rng.randint(0 if inherited else 1, max_steps)
        names = []
        for _ in range(k):
            r = rng.random()
            if inherited and r < 0.45:
                n = rng.choice(sorted(inherited))
                typ = inherited[n]
            else:
                kind = rng.random()
                if kind < 0.62:
                    n = rng.choice(STEP_NAMES)
                    typ = rng.choice(['or', 'or', 'and'])
                elif kind < 0.85:
                    n = rng.choice(DEF_NAMES)
                    typ = 'defense'
                else:
                    n = rng.choice(EX_NAMES)
                    typ = 'exist' if n == 'hasPeer' else 'notExist'
                if n in inherited:
                    typ = inherited[n]
            if n in names or n in fam_fields:
                continue
            # a name must have one type across the whole family (sibling
            # branches could otherwise clash when a common parent gets it later)
            fam_types = {}
            for u in g.family(a['name']):
                for st in g.by_name[u]['attackSteps']:
                    fam_types[st['name']] = st['type']
            if n in fam_types and fam_types[n] != typ:
                continue
            if typ in ('exist', 'notExist') and not g.fields_from(a['name']):
                continue
            names.append(n)
            a['attackSteps'].append({'name': n, 'meta': {}, 'type': typ, 'tags': [],
                                     'risk': None, 'ttc': None, 'requires': None,
                                     'reaches': None, '_inh': n in inherited})
    if plant and len(g.assets) >= 2:
        # the shape C03 names: a step declared without reaches at the top of a
        # chain and extended with '+>' at two or more places below it
        roots = [a for a in g.assets if any(b['superAsset'] == a['name'] for b in g.assets)]
        if roots:
            top = rng.choice(roots)
            n = 'own'
            fam_types = {}
            for u in g.family(top['name']):
                for st in g.by_name[u]['attackSteps']:
                    fam_types[st['name']] = st['type']
            if fam_types.get(n, 'or') == 'or' and n not in g.field_names_in_family(top['name']):
                for u in g.subtypes(top['name']):
                    ua = g.by_name[u]
                    if not any(st['name'] == n for st in ua['attackSteps']):
                        if u == top['name'] or rng.random() < 0.8:
                            ua['attackSteps'].append(
                                {'name': n, 'meta': {}, 'type': 'or', 'tags': [],
                                 'risk': None, 'ttc': None, 'requires': None,
                                 'reaches': None, '_inh': u != top['name'],
                                 '_plant': 'top' if u == top['name'] else 'ext'})
                # recompute _inh flags (an ancestor may have received the step)
                for ua in g.assets:
                    inh = g.step_names(ua['superAsset']) if ua['superAsset'] else {}
                    for st in ua['attackSteps']:
                        st['_inh'] = st['name'] in inh

    # 4. variables (fields only), defined before steps use them
    for a in g.assets:
        if rng.random() < 0.3 and g.fields_from(a['name']):
            for vn in _pick_names(rng, VAR_NAMES, rng.randint(1, 2)):
                if vn in g.vars_visible(a['name']):
                    continue          # no shadowing
                # ... and no descendant may already define it
                if any(vn in [v['name'] for v in g.by_name[u]['variables']]
                       for u in g.subtypes(a['name'])):
                    continue
                n = g.nav(a['name'], cfg.get('expr_depth', 2), allow_var=False)
                if n is None:
                    continue
                a['variables'].append({'name': vn, 'stepExpression': n[0], '_type': n[1]})

    # 5. fill in the steps
    depth = cfg.get('expr_depth', 2)
    for a in g.assets:
        for st in a['attackSteps']:
            typ = st['type']
            inh = st.pop('_inh')
            planted = st.pop('_plant', None)
            st['meta'] = meta(0.25)
            if meta_on and rng.random() < 0.15:
                st['meta']['mitre'] = rng.choice(['T1078', 'T1003.001', 'M1049: Antivirus', ''])
            st['tags'] = sorted(_pick_names(rng, TAGS, rng.choice([0, 0, 0, 1, 1, 2])))
            if typ in ('or', 'and') and rng.random() < 0.2:
                st['risk'] = {'isConfidentiality': rng.random() < 0.5,
                              'isIntegrity': rng.random() < 0.5,
                              'isAvailability': rng.random() < 0.5}
                if not any(st['risk'].values()):
                    st['risk']['isConfidentiality'] = True
            st['ttc'] = gen_ttc(rng, 'defense' if typ == 'defense' else 'step',
                                cfg.get('composite_ttc', True))
            if typ in ('exist', 'notExist'):
                st['ttc'] = None
                n = g.nav(a['name'], depth)
                if n is None:       # cannot happen: checked fields_from above
                    f, _ = g.fields_from(a['name'])[0]
                    n = ({'type': 'field', 'name': f}, None)
                st['requires'] = {'overrides': True, 'stepExpressions': [n[0]]}
            if planted == 'top':
                st['reaches'] = None
                continue
            r = rng.random()
            if planted == 'ext':
                r = 0.99 if rng.random() < 0.85 else 0.0
            if r < 0.25:
                st['reaches'] = None
            else:
                k = rng.choice([1, 1, 2, 3])
                exprs = [g.reach_expr(a['name'], depth) for _ in range(k)]
                overrides = True
                if inh and (r >= 0.6):
                    overrides = False
                st['reaches'] = {'overrides': overrides, 'stepExpressions': exprs}

    for a in g.assets:
        for v in a['variables']:
            v.pop('_type', None)

    used_cats = [c for c in cats if any(a['category'] == c for a in g.assets)]
    spec = {
        'formatVersion': '1.0.0',
        'defines': {'id': 'org.verif.' + rng.choice(['alpha', 'beta', 'gamma']),
                    'version': rng.choice(['1.0.0', '0.3.1', '2.10.0'])},
        'categories': [{'name': c, 'meta': meta(0.2)} for c in used_cats],
        'assets': g.assets,
        'associations': g.assocs,
    }
    return spec


def small_fixed_specs() -> list[dict]:
    """Hand-written languages that exercise the shapes the properties name."""
    def step(name, typ='or', reaches=None, overrides=True, ttc=None, tags=None,
             requires=None, meta=None):
        return {'name': name, 'meta': meta or {}, 'type': typ, 'tags': tags or [],
                'risk': None, 'ttc': ttc,
                'requires': ({'overrides': True, 'stepExpressions': requires}
                             if requires else None),
                'reaches': ({'overrides': overrides, 'stepExpressions': reaches}
                            if reaches is not None else None)}

    def asset(name, sup=None, steps=(), abstract=False, variables=()):
        return {'name': name, 'meta': {}, 'category': 'System', 'isAbstract': abstract,
                'superAsset': sup, 'variables': list(variables), 'attackSteps': list(steps)}

    def S(n):
        return {'type': 'attackStep', 'name': n}

    def F(n):
        return {'type': 'field', 'name': n}

    def col(a, b):
        return {'type': 'collect', 'lhs': a, 'rhs': b}

    en = {'type': 'function', 'name': 'Enabled', 'arguments': []}
    dis = {'type': 'function', 'name': 'Disabled', 'arguments': []}
    exp = {'type': 'function', 'name': 'Exponential', 'arguments': [0.1]}
    # chain: the C03 shape
    chain = {
        'formatVersion': '1.0.0', 'defines': {'id': 'org.verif.chain', 'version': '1.0.0'},
        'categories': [{'name': 'System', 'meta': {}}],
        'assets': [
            asset('Base', None, [step('s'), step('x'), step('y'), step('z'),
                                 step('d', 'defense', [S('s')], ttc=en)]),
            asset('Mid', 'Base', [step('s', reaches=[S('x')], overrides=False)]),
            asset('Leaf', 'Mid', [step('s', reaches=[S('y')], overrides=False),
                                  step('e', 'defense', None, ttc=dis)]),
            asset('Leaf2', 'Mid', [step('s', reaches=[S('z')], overrides=False)]),
            asset('Other', 'Base', [step('s', reaches=[S('z'), S('y')], overrides=True)]),
        ],
        'associations': [
            {'name': 'Link', 'meta': {}, 'leftAsset': 'Base', 'leftField': 'up',
             'leftMultiplicity': {'min': 0, 'max': 1}, 'rightAsset': 'Base',
             'rightField': 'down', 'rightMultiplicity': {'min': 0, 'max': None}}],
    }
    net = {
        'formatVersion': '1.0.0', 'defines': {'id': 'org.verif.net', 'version': '0.1.0'},
        'categories': [{'name': 'System', 'meta': {}}],
        'assets': [
            asset('Host', None, [
                step('access', 'or', [col(F('apps'), S('use')), S('own')], ttc=exp),
                step('own', 'and', [col(F('nets'), col(F('hosts'), S('access')))]),
                step('hardened', 'defense', [S('own')], ttc=dis),
                step('hasApp', 'exist', [S('own')], requires=[F('apps')]),
                step('noApp', 'notExist', [S('access')], requires=[F('apps')]),
            ]),
            asset('Server', 'Host', [
                step('access', 'or', [S('root')], overrides=False),
                step('root', 'and', None, tags=['hidden']),
                step('patched', 'defense', [S('root')], ttc=en),
            ]),
            asset('App', None, [
                step('use', 'or', [col(F('host'), S('own'))], ttc=exp,
                     meta={'mitre': 'T1078'}),
                step('mfa', 'defense', [S('use')], ttc=None, tags=['suppress']),
            ]),
            asset('Net', None, [step('scan', 'or', [col(F('hosts'), S('access'))])]),
        ],
        'associations': [
            {'name': 'Exec', 'meta': {}, 'leftAsset': 'Host', 'leftField': 'host',
             'leftMultiplicity': {'min': 1, 'max': 1}, 'rightAsset': 'App',
             'rightField': 'apps', 'rightMultiplicity': {'min': 0, 'max': None}},
            {'name': 'Conn', 'meta': {}, 'leftAsset': 'Host', 'leftField': 'hosts',
             'leftMultiplicity': {'min': 0, 'max': None}, 'rightAsset': 'Net',
             'rightField': 'nets', 'rightMultiplicity': {'min': 0, 'max': 2}},
            {'name': 'Peer', 'meta': {}, 'leftAsset': 'Host', 'leftField': 'left',
             'leftMultiplicity': {'min': 0, 'max': None}, 'rightAsset': 'Host',
             'rightField': 'right', 'rightMultiplicity': {'min': 0, 'max': None}},
            {'name': 'Conn', 'meta': {}, 'leftAsset': 'App', 'leftField': 'clients',
             'leftMultiplicity': {'min': 0, 'max': None}, 'rightAsset': 'Net',
             'rightField': 'appnets', 'rightMultiplicity': {'min': 0, 'max': None}},
        ],
    }
    return [chain, net]
