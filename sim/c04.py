"""C04: see world_s.py"""
from .world_s import SourceWorld as World, RULE_C04 as RULE, REAL, STUB, ASSUMPTIONS, new_run_c04 as new_run  # noqa: F401
