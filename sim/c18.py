"""C18: see world_m.py / legacy.py"""
from .world_m import ModelWorld as World, REAL, ASSUMPTIONS, new_run_for  # noqa: F401

RULE = ('one run = one language, one model and a seeded history of edits (as C05) in which a legacy '
        'peer writes the reference model 1-3 times as a 0.0.39-layout file (json / yaml; wrapper or '
        'top-level fields, type-only shorthand, scalar targets, permuted asset order) or as a securiCAD '
        '.sCAD archive (pairwise association elements in either orientation, firstSteps rows in either '
        'orientation, rotated element order); the loader under test reads it, the result is compared '
        '(assets, pairwise links, entry points, from Model._to_dict()) with the reference and with the '
        'native loader on the equivalent native file, and the history continues on the loaded model. '
        'non-trivial = >=5 state-changing steps and >=1 legacy load; distinct = distinct event-log digest')
STUB = []
REAL = REAL + ['maltoolbox.translators.updater', 'maltoolbox.translators.securicad', 'zipfile', 'xml.etree']
ASSUMPTIONS = ASSUMPTIONS + ['the legacy writers sim/legacy.py are the inverse translation (layout read '
                             'off the loaders and the two fixture files)',
                             'attacker names are not expressible in .sCAD and not compared there']


def new_run(rng, tier):
    return new_run_for('C18', rng, tier)
