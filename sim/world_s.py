"""World S: a tree of MAL source files read by the compiler (C04, C17).

A language-author peer prints a specification as MAL text; a layout actor
distributes the declarations over 1-5 files with include lines (also repeated /
diamond includes), picks the form of the root path and the cwd.  Clients:
compiler callers (fresh MalCompiler, LanguageGraph.from_mal_spec, one instance
re-used for two roots in one directory) and - for C17 - a storage-fault injector
that damages what the compiler *reads* (the files on disk stay intact) at the
FileStream seam.
"""
from __future__ import annotations

import contextlib
import copy
import io
import json
import os

from .engine import Violation, SetupRejected, Unresolvable
from .lang import canon, gen_spec, small_fixed_specs, corpus
from .world import BaseWorld, call, weighted
from . import findings, malprint

RULE_C04 = ('one run = one language specification (seeded generator with nested set / collect / '
            'transitive / subtype / variable expressions, TTC arithmetic, every multiplicity form, meta; '
            'hand-written corpus; coreLang as shipped by malc) printed as MAL text, and 3-8 seeded '
            'layouts of the same declarations: 1-5 files, include placement, repeated and diamond '
            'includes, empty files, root path given as x.mal / ./x.mal / dir/x.mal / absolute with '
            'matching cwd, fresh compiler / from_mal_spec / one compiler instance used twice. Each '
            'result is compared with the single-file result and with the specification the author '
            'meant. non-trivial = >=2 layouts with >=2 files incl. one repeated or diamond include; '
            'distinct = distinct event-log digest')
RULE_C17 = ('one run = one valid multi-file MAL program and 4-10 seeded damages of what the compiler '
            'reads from one of its files (truncate, drop a range, duplicate a range, overwrite 1-8 '
            'bytes with MAL alphabet, zero a block; half of the offsets on token boundaries), injected '
            'at the FileStream seam, or written to disk in a second directory with the same file names '
            '(compiled after the intact tree) or in a sub-directory the root\'s includes point into. Oracle: the repository\'s own lexer/parser with a counting parser '
            'error listener over the include closure; if it reports an error, compile and '
            'from_mal_spec must raise. non-trivial = >=1 damage the grammar rejects and >=1 in an '
            'included file; distinct = distinct event-log digest')
REAL = ['maltoolbox.language.compiler.MalCompiler', 'malVisitor', 'generated malLexer / malParser',
        'antlr4 runtime', 'maltoolbox.language.LanguageGraph.from_mal_spec', 'CPython file objects on tmpfs']
STUB = ['replacement for the name FileStream in maltoolbox.language.compiler (reads the real file, '
        'applies the planned damage to the text it returns)']
ASSUMPTIONS = [
    'the pretty-printer sim/malprint.py prints what the author means (validated: oracle parser reports 0 '
    'errors on everything it prints; compile(print(coreLang)) equals malc\'s langspec.json)',
    'top-level lists (categories, assets, associations) are compared as multisets: merge order follows '
    'include position and is not promised',
    'how include names with a directory part are resolved, and re-use of one compiler instance across '
    'directories, are unspecified: with sub-directory includes only "no file that was read and parsed may be '
    'malformed unless the compile fails" is judged',
    'C17: lexer-only errors are not required to raise; a cut after a complete declaration is grammatical '
    '(rule mal does not demand EOF)',
]

MAL_ALPHABET = 'abcXYZ01{}[]()<>-+*/\\|&#!@.,:=" \n'


def _norm_top(spec):
    """Top-level lists as multisets keyed by canonical text."""
    out = {}
    for k, v in spec.items():
        if isinstance(v, list):
            out[k] = sorted(canon(x) for x in v)
        else:
            out[k] = v
    return out


def pick_spec(rng, tier, for_c17=False):
    r = rng.random()
    if r < (0.01 if tier == 'quick' else 0.004) and not for_c17:
        return corpus('corelang'), 'corelang'
    if r < 0.06:
        return small_fixed_specs()[1], 'fixed:net'
    if r < 0.10:
        return small_fixed_specs()[0], 'fixed:chain'
    guards = findings.active_guards('C04')
    cfg = {'max_types': 5, 'max_assocs': 5, 'expr_depth': rng.choice([1, 2, 3]),
           'composite_ttc': True, 'ttc_factors': 2 if 'ttc_three_factors' in guards else 3,
           'allow_same_signature_assocs': not for_c17}
    for _ in range(20):
        spec = gen_spec(rng, cfg)
        if spec['associations']:
            return spec, 'gen'
    return small_fixed_specs()[1], 'fixed:net'


def gen_layout(rng, ndecl):
    """A layout: files[i] = list of items, item = ['d', k] (declaration k) or
    ['i', j] (include of file j).  File 0 is the root."""
    nfiles = weighted(rng, [(2, 1), (3, 2), (3, 3), (2, 4), (1, 5)])
    files = [[] for _ in range(nfiles)]
    order = list(range(ndecl))
    if rng.random() < 0.5:
        rng.shuffle(order)
    for k in order:
        files[rng.randrange(nfiles)].append(['d', k])
    # include tree: every file j>0 is included by some earlier file
    for j in range(1, nfiles):
        parent = rng.randrange(j)
        files[parent].insert(rng.randint(0, len(files[parent])), ['i', j])
    # repeated / diamond includes
    for _ in range(rng.choice([0, 0, 1, 2])):
        if nfiles < 2:
            break
        j = rng.randrange(1, nfiles)
        parent = rng.randrange(j)           # only "downward": no include cycles
        files[parent].insert(rng.randint(0, len(files[parent])), ['i', j])
    return files


def gen_deep_layout(rng, ndecl):
    """An include chain 11-14 files deep (file i includes file i+1), declarations spread
    over all levels, the deepest file never empty."""
    nfiles = rng.randint(12, 15)
    files = [[] for _ in range(nfiles)]
    for k in range(ndecl):
        files[rng.randrange(nfiles)].append(['d', k])
    if ndecl and not files[-1]:
        donors = [f for f in files[:-1] if f]
        f = rng.choice(donors)
        files[-1].append(f.pop(rng.randrange(len(f))))
    for j in range(nfiles - 1):
        files[j].insert(rng.randint(0, len(files[j])), ['i', j + 1])
    return files


def layout_has_repeat(files):
    seen = {}
    for f in files:
        for kind, x in f:
            if kind == 'i':
                seen[x] = seen.get(x, 0) + 1
    return any(v > 1 for v in seen.values())


def new_run_c04(rng, tier):
    spec, src = pick_spec(rng, tier)
    cfg = {'prop': 'C04', 'guards': findings.active_guards('C04'),
           'steps': rng.randint(3, 8) if src != 'corelang' else 3}
    desc = {'spec': spec, 'source': src}
    if src != 'corelang' and rng.random() < 0.25:
        # one define is written twice with two values: the one that comes later in the
        # text (after includes are put in place) is the one the source denotes
        desc['dup_define'] = True
    return cfg, desc


def new_run_c17(rng, tier):
    spec, src = pick_spec(rng, tier, for_c17=True)
    ndecl = len(malprint.declarations(spec))
    cfg = {'prop': 'C17', 'guards': findings.active_guards('C17'), 'steps': rng.randint(4, 10)}
    layout = gen_layout(rng, ndecl)
    if rng.random() < 0.08:
        layout = gen_deep_layout(rng, ndecl)
    return cfg, {'spec': spec, 'source': src, 'layout': layout}


class SourceWorld(BaseWorld):
    def __init__(self, cfg, desc):
        super().__init__(cfg, desc)
        import maltoolbox.language.compiler as comp
        from maltoolbox.language import LanguageGraph
        self.comp = comp
        self.LanguageGraph = LanguageGraph
        self.prop = cfg['prop']
        self.spec = desc['spec']
        self.decls = malprint.declarations(self.spec)
        self.expected = _norm_top(self.spec)
        self.nlayout = 0
        self.single = None
        self.multi_layouts = 0
        self.repeat_layouts = 0
        self.rejected_damages = 0
        self.included_damages = 0
        self.cwd0 = os.getcwd()
        sigs = [(a['name'], a['leftAsset'], a['rightAsset']) for a in self.spec['associations']]
        self.same_signature_assocs = len(set(sigs)) != len(sigs)
        if self.same_signature_assocs:
            self.count('probe:same_signature_associations')
        if desc.get('source') == 'corelang':
            self.count('probe:corelang')
        # the printer must follow the grammar: 0 parser errors on what it prints
        text = malprint.single_file(self.spec)
        n = self._oracle_errors_text(text)
        if n:
            raise SetupRejected('printer:not grammatical')
        self.dup = None
        if self.prop == 'C04' and desc.get('dup_define'):
            k = len(self.decls)
            self.decls = self.decls + [('define', '#note: "first"\n'), ('define', '#note: "second"\n')]
            self.dup = (k, k + 1)
            text = text + '#note: "first"\n#note: "second"\n'
            self.expected = dict(self.expected)
            self.expected['defines'] = dict(self.expected['defines'], note='second')
            self.count('probe:define_written_twice')
        if self.prop == 'C04':
            self._compile_single(text)
        else:
            self.files = self._write_layout(desc['layout'], 'prog')
            # the undamaged program must compile - and it must be read through the seam
            # (self-check of the harness; later reads may legitimately be skipped by the
            # code under test, e.g. by a cache, and are judged, not assumed)
            used = {'n': 0}
            real = getattr(self.comp, 'FileStream', None)
            if real is None:
                from antlr4 import FileStream as real       # the name is gone: nothing to replace

            def counting(path, encoding='ascii', errors='strict'):
                used['n'] += 1
                return real(path, encoding, errors)
            self.comp.FileStream = counting
            try:
                o = self._compile(os.path.join(self.dir, 'prog', 'f0.mal'))
            finally:
                self.comp.FileStream = real
            if o.raised:
                raise SetupRejected('c17:valid program does not compile:' + o.exc_name())
            self.no_seam = not used['n']
            if self.no_seam:
                # the compiler reads its files some other way: damaged *reads* cannot be
                # injected; every damage is then written to disk (second directory) instead
                self.count('probe:compiler_does_not_read_through_FileStream')

    def close(self):
        try:
            os.chdir(self.cwd0)
        finally:
            super().close()

    # ------------------------------------------------------------- plumbing
    def _compile(self, path, how='compiler', compiler=None):
        err = io.StringIO()
        with contextlib.redirect_stderr(err):
            if how == 'from_mal_spec':
                o = call(self._from_mal_spec, path)
            else:
                c = compiler or self.comp.MalCompiler()
                o = call(c.compile, path)
        o_err = err.getvalue()
        self.last_stderr = o_err
        return o

    def _from_mal_spec(self, path):
        lg = self.LanguageGraph.from_mal_spec(path)
        out = self.fresh_path('.langspec.json')
        lg.save_language_specification_to_json(out)     # the public way to read the spec
        with open(out) as f:
            spec = json.load(f)
        os.remove(out)
        return spec

    def _write_layout(self, files, sub, dot=False):
        d = os.path.join(self.dir, sub)
        os.makedirs(d, exist_ok=True)
        names = [f'f{i}.mal' for i in range(len(files))]
        for i, items in enumerate(files):
            text = ''
            for kind, x in items:
                if kind == 'd':
                    if x < len(self.decls):
                        text += self.decls[x][1]
                else:
                    if x < len(files):
                        # ("./name" names the same file as "name": same directory)
                        text += f'include "{"./" if dot else ""}{names[x]}"\n'
            with open(os.path.join(d, names[i]), 'w', encoding='utf-8') as f:
                f.write(text)
        return names

    def _compile_single(self, text):
        d = os.path.join(self.dir, 'single')
        os.makedirs(d, exist_ok=True)
        p = os.path.join(d, 'lang.mal')
        with open(p, 'w', encoding='utf-8') as f:
            f.write(text)
        o = self._compile(p)
        self.count('oracle:C04.denotes')
        if o.raised:
            raise Violation('C04.denotes', f'compiling the single-file print of the specification '
                                           f'raised {o.exc!r}')
        if self.last_stderr.strip():
            raise Violation('C04.denotes', 'the compiler reported syntax errors on a grammatical '
                                           'program: ' + self.last_stderr[:300])
        got = _norm_top(o.value)
        if got != self.expected:
            clause = 'C04.corelang' if self.desc.get('source') == 'corelang' else 'C04.denotes'
            raise Violation(clause, 'compile(print(spec)) differs from the specification\n'
                            + _spec_diff(self.spec, o.value))
        self.single = got

    # ------------------------------------------------------- oracle parser
    def _oracle_errors_text(self, text):
        from antlr4 import InputStream, CommonTokenStream
        from antlr4.error.ErrorListener import ErrorListener
        from maltoolbox.language.compiler.mal_lexer import malLexer
        from maltoolbox.language.compiler.mal_parser import malParser

        class Count(ErrorListener):
            def __init__(self):
                self.n = 0

            def syntaxError(self, *a):
                self.n += 1
        lexer = malLexer(InputStream(text))
        lexer.removeErrorListeners()
        parser = malParser(CommonTokenStream(lexer))
        parser.removeErrorListeners()
        cnt = Count()
        parser.addErrorListener(cnt)
        tree = parser.mal()
        self._last_tree = tree
        return cnt.n

    def _oracle_closure_errors(self, root_dir, root_name, damaged):
        """Parser error count over the include closure, reading through the
        same damage as the compiler does."""
        total = 0
        seen = set()
        todo = [root_name]
        while todo:
            name = todo.pop()
            if name in seen:
                continue
            seen.add(name)
            p = os.path.join(root_dir, name)
            if not os.path.isfile(p):
                return total + 1, seen          # missing include: compile raises anyway
            with open(p, encoding='utf-8') as f:
                text = f.read()
            if name in damaged:
                text = damaged[name]
            total += self._oracle_errors_text(text)
            for d in self._last_tree.declaration():
                inc = d.include()
                if inc is not None and inc.STRING() is not None:
                    todo.append(os.path.basename(inc.STRING().getText().strip('"')))
        return total, seen

    # -------------------------------------------------------------------- ops
    def gen_op(self, rng):
        if self.prop == 'C04':
            files = gen_layout(rng, len(self.decls))
            form = rng.choice(['name', 'dot', 'rel', 'abs'])
            how = weighted(rng, [(6, 'compiler'), (2, 'from_mal_spec'), (2, 'reuse'),
                                 (2, 'reuse_after_error')])
            return {'op': 'compile_layout', 'files': files, 'path_form': form, 'how': how,
                    'dot_includes': rng.random() < 0.2,
                    'bad': rng.choice(['missing', 'syntax']), 'second': rng.choice(['same', 'fresh'])}
        # C17
        nfiles = len(self.files)
        target = rng.randrange(nfiles)
        if nfiles >= 10 and rng.random() < 0.6:
            target = rng.randrange(nfiles - 3, nfiles)      # deep chains: damage near the bottom
        p = os.path.join(self.dir, 'prog', self.files[target])
        with open(p, encoding='utf-8') as f:
            text = f.read()
        n = len(text)
        kind = rng.choice(['truncate', 'drop', 'dup', 'overwrite', 'zero', 'keyword', 'eio'])
        bounds = [i for i in range(1, n) if text[i - 1] in ' \n' or text[i] in ' \n{}[](),.']
        pos = rng.choice(bounds) if bounds and rng.random() < 0.5 else rng.randrange(max(n, 1))
        ln = rng.choice([1, 2, 3, 5, 8, 20, 60])
        data = ''.join(rng.choice(MAL_ALPHABET) for _ in range(rng.randint(1, 8)))
        if kind == 'keyword':           # reserved-word misuse: an identifier becomes a reserved token
            data = rng.choice(['A', 'C', 'I', 'E', 'asset', 'let', 'info', 'category', 'extends'])
        op = {'op': 'damaged_read', 'file': target, 'kind': kind, 'pos': pos, 'len': ln,
              'data': data, 'how': rng.choice(['compiler', 'compiler', 'from_mal_spec', 'reuse_retry']),
              'path_form': rng.choice(['abs', 'abs', 'name', 'dot', 'rel'])}
        r = rng.random()
        if r < 0.12 and kind != 'eio':
            # the damaged file really is on disk, in a second directory that holds a tree
            # with the same file names; the intact tree is compiled first
            op.update(op='twin_dirs', how=rng.choice(['compiler', 'from_mal_spec', 'from_mal_spec']))
        elif r < 0.27 and kind != 'eio' and nfiles > 1:
            # ... or in a sub-directory the root's include lines point into, next to an
            # intact copy with the same name at the top level
            op.update(op='shadow_tree', how=rng.choice(['compiler', 'from_mal_spec']),
                      file=rng.randrange(1, nfiles))
        return op

    def apply(self, op):
        self.count('op:' + op['op'])
        if op['op'] == 'compile_layout':
            return self.do_compile_layout(op)
        if op['op'] == 'damaged_read':
            return self.do_damaged_read(op)
        if op['op'] == 'twin_dirs':
            return self.do_twin_dirs(op)
        if op['op'] == 'shadow_tree':
            return self.do_shadow_tree(op)
        raise Unresolvable()

    def do_compile_layout(self, op):
        self.nlayout += 1
        sub = f'lay{self.nlayout}'
        files = op['files']
        names = self._write_layout(files, sub, dot=bool(op.get('dot_includes')))
        if op.get('dot_includes'):
            self.count('probe:includes_written_with_dot_slash')
        d = os.path.join(self.dir, sub)
        form = op['path_form']
        try:
            if form == 'name':
                os.chdir(d)
                root = names[0]
            elif form == 'dot':
                os.chdir(d)
                root = './' + names[0]
            elif form == 'rel':
                os.chdir(self.dir)
                root = os.path.join(sub, names[0])
            else:
                os.chdir(self.cwd0)
                root = os.path.join(d, names[0])
            how = op['how']
            if how == 'from_mal_spec' and self.same_signature_assocs:
                # the language graph keeps only the first of two associations with one
                # name between the same types (not the compiler's business, and not C04's)
                how = 'compiler'
            if how == 'reuse_after_error':
                # the same compiler object first fails inside an *included* file of another
                # root in the same directory, then compiles this layout
                with open(os.path.join(d, 'zz_bad_root.mal'), 'w') as f:
                    f.write('include "zz_bad_inc.mal"\n')
                with open(os.path.join(d, 'zz_bad_inc.mal'), 'w') as f:
                    if op.get('bad') == 'syntax':
                        f.write('#id: "x"\ncategory Sys {\n  aset Host {\n')     # a draft, not MAL yet
                    else:
                        f.write('#id: "x"\ninclude "zz_no_such_file.mal"\n')
                c = self.comp.MalCompiler()
                bad = os.path.join(os.path.dirname(root), 'zz_bad_root.mal') if os.path.dirname(root) \
                    else 'zz_bad_root.mal'
                first = self._compile(bad, compiler=c)
                if not first.raised:
                    raise Violation('C04.layout_invariant', 'a root whose include chain ends in a '
                                                            'missing file compiled without an error')
                if op.get('second') == 'fresh':
                    # ... or a brand-new compiler in a process that refused a source before
                    o = self._compile(root)
                    self.count('probe:compiled_after_another_source_was_refused')
                else:
                    o = self._compile(root, compiler=c)
                    self.count('probe:compiler_instance_reused_after_error')
            elif how == 'reuse':
                # one compiler instance, two roots in the same directory
                c = self.comp.MalCompiler()
                first = self._compile(root, compiler=c)
                o = self._compile(root, compiler=c)
                self.count('probe:compiler_instance_reused')
                if not first.raised and not o.raised and \
                        _norm_top(first.value) != _norm_top(o.value):
                    raise Violation('C04.layout_invariant', 'the same compiler instance gives two '
                                                            'different results for one root')
            else:
                o = self._compile(root, how=how)
        finally:
            os.chdir(self.cwd0)
        nf = len(files)
        where = f'layout of {nf} files ({form} root, {op["how"]})'
        self.count('oracle:C04.layout_invariant')
        if o.raised:
            raise Violation('C04.layout_invariant', f'{where}: compile raised {o.exc!r}')
        if self.last_stderr.strip():
            raise Violation('C04.layout_invariant', f'{where}: syntax errors reported on a '
                                                    f'grammatical program: {self.last_stderr[:300]}')
        got = _norm_top(o.value)
        exp = self.single
        if self.dup is not None:
            # expansion order of the layout: includes are put in place, the later define wins
            seq = []

            def expand(j, depth=0):
                for kind, x in files[j]:
                    if kind == 'd':
                        seq.append(x)
                    elif x < len(files) and depth < 40:
                        expand(x, depth + 1)
            expand(0)
            last = max((i for i, x in enumerate(seq) if x in self.dup), default=None)
            exp = dict(self.single)
            exp['defines'] = dict(self.single['defines'],
                                  note='first' if last is not None and seq[last] == self.dup[0] else 'second')
            if exp['defines']['note'] == 'first':
                self.count('probe:layout_puts_the_first_define_last')
        if got != exp:
            raise Violation('C04.layout_invariant', f'{where}: result differs from the single-file '
                                                    f'result\n' + _norm_diff(exp, got))
        if nf >= 2:
            self.multi_layouts += 1
            self.count('probe:multi_file_layout')
        if layout_has_repeat(files):
            self.repeat_layouts += 1
            self.count('probe:repeated_or_diamond_include')
        if any(not f for f in files):
            self.count('probe:empty_file')
        self.count('probe:root_' + form)
        self.count('out:ok')
        return ['compile_layout', 'ok', '']

    def _damage(self, text, op):
        pos = min(op['pos'], len(text))
        ln = op['len']
        k = op['kind']
        if k == 'truncate':
            return text[:pos]
        if k == 'drop':
            return text[:pos] + text[pos + ln:]
        if k == 'dup':
            return text[:pos + ln] + text[pos:pos + ln] + text[pos + ln:]
        if k == 'keyword':
            import re
            m = re.compile(r'[A-Za-z0-9_]+').match(text, pos)
            end = m.end() if m else pos
            return text[:pos] + op['data'] + text[end:]
        if k == 'overwrite':
            data = op['data']
            return text[:pos] + data + text[pos + len(data):]
        return text[:pos] + ' ' * min(ln, len(text) - pos) + text[pos + ln:]   # zeroed block

    def do_damaged_read(self, op):
        from antlr4 import InputStream
        if op['file'] >= len(self.files):
            raise Unresolvable()
        name = self.files[op['file']]
        d = os.path.join(self.dir, 'prog')
        with open(os.path.join(d, name), encoding='utf-8') as f:
            orig = f.read()
        if getattr(self, 'no_seam', False):
            if op['kind'] == 'eio':
                self.count('out:not_injectable_without_the_seam')
                return ['damaged_read', 'not_injectable', '']
            return self.do_twin_dirs(op)
        if op['kind'] == 'eio':
            return self._unreadable_file(op, name, d)
        dmg = self._damage(orig, op)
        if dmg == orig:
            self.count('out:no_change')
            return ['damaged_read', 'no_change', '']
        nerr, seen = self._oracle_closure_errors(d, self.files[0], {name: dmg})
        fired = {'n': 0}

        class DamagedStream(InputStream):
            __slots__ = ('fileName',)

        def fake_file_stream(path, encoding='ascii', errors='strict'):
            with open(path, encoding=encoding, errors=errors) as f:
                text = f.read()
            if os.path.basename(path) == name:
                fired['n'] += 1
                text = dmg
            s = DamagedStream(text)
            s.fileName = path
            return s
        real = self.comp.FileStream
        self.comp.FileStream = fake_file_stream
        # how the caller names the root: absolute, or relative to its working directory
        form = op.get('path_form', 'abs')
        root = os.path.join(d, self.files[0])
        if form == 'name':
            os.chdir(d)
            root = self.files[0]
        elif form == 'dot':
            os.chdir(d)
            root = './' + self.files[0]
        elif form == 'rel':
            os.chdir(self.dir)
            root = os.path.join('prog', self.files[0])
        self.count('probe:root_' + form)
        try:
            if op.get('how') == 'reuse_retry':
                # one compiler object, the same damaged tree read twice: the answer of
                # the second call is the one judged
                c = self.comp.MalCompiler()
                first = self._compile(root, compiler=c)
                o = self._compile(root, compiler=c)
                self.count('probe:compiler_instance_reused_after_error' if first.raised
                           else 'probe:compiler_instance_reused')
            else:
                o = self._compile(root, how=op.get('how', 'compiler'))
        finally:
            self.comp.FileStream = real
            os.chdir(self.cwd0)
        if fired['n']:
            self.count('fault:damaged_read_' + op['kind'])
        if not fired['n']:
            self.count('probe:damaged_file_was_not_read')
        if nerr == 0:
            self.count('out:benign_for_grammar')
            self.count('out:benign_' + ('raised' if o.raised else 'compiled'))
            return ['damaged_read', 'benign', '']
        self.rejected_damages += 1
        if op['file'] > 0:
            self.included_damages += 1
            self.count('probe:damage_in_included_file')
        self.count('oracle:C17.rejected')
        if not o.raised:
            raise Violation('C17.rejected',
                            f'{op["kind"]} at offset {op["pos"]} of {name} ({nerr} parser error(s) '
                            f'by the grammar): {op.get("how", "compiler")} returned a specification '
                            f'with {len(o.value.get("assets", []))} assets instead of failing; '
                            f'stderr: {self.last_stderr[:200]!r}')
        self.count('out:raised')
        return ['damaged_read', 'raised', '']

    def _copy_tree(self, dst, damaged=None, rewrite_root=None):
        """The program's files written again under dst (name -> text overrides in damaged)."""
        src = os.path.join(self.dir, 'prog')
        os.makedirs(dst, exist_ok=True)
        for i, name in enumerate(self.files):
            with open(os.path.join(src, name), encoding='utf-8') as f:
                text = f.read()
            if damaged and name in damaged:
                text = damaged[name]
            if rewrite_root and i == 0:
                text = rewrite_root(text)
            with open(os.path.join(dst, name), 'w', encoding='utf-8') as f:
                f.write(text)

    def do_twin_dirs(self, op):
        """History: the intact tree in one directory is compiled, then a tree with the same
        file names in another directory, one file of which is damaged on disk."""
        if op['file'] >= len(self.files):
            raise Unresolvable()
        name = self.files[op['file']]
        with open(os.path.join(self.dir, 'prog', name), encoding='utf-8') as f:
            orig = f.read()
        dmg = self._damage(orig, op)
        if dmg == orig:
            self.count('out:no_change')
            return ['twin_dirs', 'no_change', '']
        self.ntwin = getattr(self, 'ntwin', 0) + 1
        good, bad = (os.path.join(self.dir, f'twin{self.ntwin}{x}') for x in 'ab')
        self._copy_tree(good)
        self._copy_tree(bad, {name: dmg})
        nerr, seen = self._oracle_closure_errors(bad, self.files[0], {})
        how = op.get('how', 'compiler')
        first = self._compile(os.path.join(good, self.files[0]), how=how)
        o = self._compile(os.path.join(bad, self.files[0]), how=how)
        self.count('fault:damaged_file_on_disk_in_second_directory')
        if first.raised:
            raise SetupRejected('c17:valid program does not compile:' + first.exc_name())
        if nerr == 0:
            self.count('out:benign_for_grammar')
            return ['twin_dirs', 'benign', '']
        self.rejected_damages += 1
        if op['file'] > 0:
            self.included_damages += 1
        self.count('oracle:C17.rejected')
        if not o.raised:
            raise Violation('C17.rejected',
                            f'{op["kind"]} at offset {op["pos"]} of {name} ({nerr} parser error(s) by '
                            f'the grammar) in a second directory, after the intact tree with the same '
                            f'file names was compiled from another directory: {how} returned a '
                            f'specification with {len(o.value.get("assets", []))} assets instead of failing')
        self.count('out:raised')
        return ['twin_dirs', 'raised', '']

    def do_shadow_tree(self, op):
        """The root names its includes as "sub/<file>"; sub/ holds a copy of the tree in which
        one file is damaged, the top level an intact copy.  Whatever rule the compiler uses to
        find includes: no file it reads and parses may be malformed without the compile failing."""
        if op['file'] >= len(self.files) or op['file'] == 0:
            raise Unresolvable()
        name = self.files[op['file']]
        with open(os.path.join(self.dir, 'prog', name), encoding='utf-8') as f:
            orig = f.read()
        dmg = self._damage(orig, op)
        if dmg == orig or self._oracle_errors_text(dmg) == 0:
            self.count('out:benign_for_grammar')
            return ['shadow_tree', 'benign', '']
        self.nshadow = getattr(self, 'nshadow', 0) + 1
        top = os.path.join(self.dir, f'shadow{self.nshadow}')
        self._copy_tree(top, rewrite_root=lambda t: t.replace('include "', 'include "sub/'))
        self._copy_tree(os.path.join(top, 'sub'), {name: dmg})
        read = []
        real = self.comp.FileStream

        def recording(path, encoding='ascii', errors='strict'):
            st = real(path, encoding, errors)
            read.append((os.path.relpath(path, top), str(st)))
            return st
        self.comp.FileStream = recording
        try:
            o = self._compile(os.path.join(top, self.files[0]), how=op.get('how', 'compiler'))
        finally:
            self.comp.FileStream = real
        self.count('fault:damaged_file_on_disk_in_sub_directory')
        bad = [(rel, self._oracle_errors_text(text)) for rel, text in read]
        bad = [(rel, n) for rel, n in bad if n]
        if not bad:
            self.count('out:damaged_copy_not_read_' + ('raised' if o.raised else 'compiled'))
            return ['shadow_tree', 'not_read', '']
        self.rejected_damages += 1
        self.included_damages += 1
        self.count('oracle:C17.rejected')
        if not o.raised:
            raise Violation('C17.rejected',
                            f'{bad[0][0]} was read while compiling and does not conform to the grammar '
                            f'({bad[0][1]} parser error(s)), yet {op.get("how", "compiler")} returned a '
                            f'specification with {len(o.value.get("assets", []))} assets')
        self.count('out:raised')
        return ['shadow_tree', 'raised', '']

    def _unreadable_file(self, op, name, d):
        """The read of one file of the tree fails with EIO: the compiler must not
        return a language assembled from the files it could read."""
        import errno
        # is the file part of the include closure at all?
        _, seen = self._oracle_closure_errors(d, self.files[0], {})
        fired = {'n': 0}
        real = self.comp.FileStream

        def failing_file_stream(path, encoding='ascii', errors='strict'):
            if os.path.basename(path) == name:
                fired['n'] += 1
                raise OSError(errno.EIO, 'injected EIO while reading ' + name)
            return real(path, encoding, errors)
        self.comp.FileStream = failing_file_stream
        try:
            o = self._compile(os.path.join(d, self.files[0]), how=op.get('how', 'compiler')
                              if op.get('how') != 'reuse_retry' else 'compiler')
        finally:
            self.comp.FileStream = real
        if name not in seen:
            return ['damaged_read', 'not_in_closure', '']
        if fired['n']:
            self.count('fault:unreadable_file_EIO')
        else:
            self.count('probe:damaged_file_was_not_read')
        self.rejected_damages += 1
        if op['file'] > 0:
            self.included_damages += 1
        self.count('oracle:C17.rejected')
        if not o.raised:
            raise Violation('C17.rejected', f'reading {name} failed with EIO, yet '
                                            f'{op.get("how", "compiler")} returned a specification '
                                            f'with {len(o.value.get("assets", []))} assets')
        self.count('out:raised')
        return ['damaged_read', 'raised', '']

    def nontrivial(self):
        if self.prop == 'C04':
            return self.multi_layouts >= 2 and self.repeat_layouts >= 1
        return self.rejected_damages >= 1 and self.included_damages >= 1


def _spec_diff(exp, got, limit=6):
    out = []
    for k in exp:
        if isinstance(exp[k], list):
            e = {canon(x) for x in exp[k]}
            g = {canon(x) for x in got.get(k, [])}
            en = {x.get('name') for x in exp[k] if isinstance(x, dict)}
            for x in sorted(e - g)[:2]:
                name = json.loads(x).get('name')
                twin = next((y for y in got.get(k, []) if isinstance(y, dict) and y.get('name') == name), None)
                if twin is not None:
                    out.append(f'  {k}[{name}]:\n' + _deep_diff(json.loads(x), twin, '    '))
                else:
                    out.append(f'  {k}: missing {x[:200]}')
            for x in sorted(g - e)[:2]:
                if json.loads(x).get('name') not in en:
                    out.append(f'  {k}: unexpected {x[:200]}')
        elif canon(exp[k]) != canon(got.get(k)):
            out.append(f'  {k}: expected {canon(exp[k])[:200]} got {canon(got.get(k))[:200]}')
    return '\n'.join(out[:limit])


def _deep_diff(a, b, ind, out=None, path=''):
    out = [] if out is None else out
    if len(out) > 4:
        return '\n'.join(out)
    if isinstance(a, dict) and isinstance(b, dict):
        for k in sorted(set(a) | set(b)):
            if k not in a or k not in b:
                out.append(f'{ind}{path}/{k}: on one side only')
            else:
                _deep_diff(a[k], b[k], ind, out, f'{path}/{k}')
    elif isinstance(a, list) and isinstance(b, list) and len(a) == len(b):
        for i, (x, y) in enumerate(zip(a, b)):
            _deep_diff(x, y, ind, out, f'{path}[{i}]')
    elif a != b:
        out.append(f'{ind}{path}: expected {canon(a)[:300]} got {canon(b)[:300]}')
    return '\n'.join(out)


def _norm_diff(exp, got):
    out = []
    for k in exp:
        if exp[k] != got.get(k):
            if isinstance(exp[k], list):
                e, g = set(exp[k]), set(got.get(k, []))
                out.append(f'  {k}: {len(exp[k])} -> {len(got.get(k, []))} entries; missing '
                           f'{[x[:120] for x in sorted(e - g)[:2]]} unexpected '
                           f'{[x[:120] for x in sorted(g - e)[:2]]}')
            else:
                out.append(f'  {k}: {exp[k]} -> {got.get(k)}')
    return '\n'.join(out[:6])
