"""Legacy peers: write the reference model in the 0.0.39 file layout or as a
securiCAD .sCAD archive (the inverse of the loaders in maltoolbox/translators).
Test-side code; every choice the formats leave open (element order, orientation
of an association element, field-at-top-level vs 'association' wrapper, type-only
shorthand) is taken from the op, i.e. from the seeded scheduler.
"""
from __future__ import annotations

import json
import zipfile
from xml.sax.saxutils import quoteattr


def pairwise_links(ref):
    """[(cls, left asset handle, right asset handle)] of the reference model."""
    out = []
    for s in ref.assoc_order:
        a = ref.assocs[s]
        for l in a.left:
            for r in a.right:
                out.append((a.cls, l, r))
    return out


def file_order_0_0_39(ref, op):
    order = [i for i in op.get('order', []) if i in ref.live_ids()]
    order += [ref.assets[h].id for h in ref.order if ref.assets[h].id not in order]
    return order


def write_0_0_39(ref, L, path, op, names=None):
    """op: {'fmt', 'wrapper': bool, 'shorthand': bool, 'all_defenses': bool, 'order': [ids]};
    names: {asset id: name written to the file} where it differs from the reference."""
    import yaml
    order = file_order_0_0_39(ref, op)
    names = names or {}
    by_id = {ref.assets[h].id: ref.assets[h] for h in ref.order}
    assets = {}
    for i in order:
        a = by_id[i]
        defaults = L.defenses(a.type)
        defs = {k: v for k, v in a.defenses.items() if op.get('all_defenses') or v != defaults[k]}
        key = str(i)
        if op.get('shorthand') and not defs and a.name == f'{a.type}:{key}' and i not in names:
            assets[key] = a.type
        else:
            d = {'metaconcept': a.type, 'name': names.get(i, a.name)}
            if defs:
                d['defenses'] = defs
            assets[key] = d
    assocs = []
    for s in ref.assoc_order:
        a = ref.assocs[s]
        info = L.assoc_by_cls[a.cls]
        fields = {info.lf: [ref.assets[x].id for x in a.left],
                  info.rf: [ref.assets[x].id for x in a.right]}
        if op.get('scalar_targets'):
            fields = {k: (v[0] if len(v) == 1 else v) for k, v in fields.items()}
        if op.get('wrapper', True):
            assocs.append({'metaconcept': a.cls, 'association': fields})
        else:
            d = {'metaconcept': a.cls}
            d.update(fields)
            assocs.append(d)
    attackers = {}
    for k in ref.attacker_order:
        at = ref.attackers[k]
        attackers[str(at.id)] = {'name': at.name, 'entry_points': {
            str(ref.assets[h].id): {'attack_steps': list(steps)} for h, steps in at.eps}}
    doc = {'metadata': {'name': ref.name, 'langVersion': L.spec['defines']['version'],
                        'langID': L.spec['defines']['id'], 'MAL Toolbox Version': '0.0.39'},
           'assets': assets, 'associations': assocs, 'attackers': attackers}
    with open(path, 'w', encoding='utf-8') as f:
        if op['fmt'] == 'json':
            json.dump(doc, f, indent=2)
        else:
            yaml.safe_dump(doc, f, sort_keys=False, allow_unicode=False)


def write_scad(ref, L, path, op):
    """op: {'flip': [bool per link], 'order': 'objects_first'|..., 'ep_flip': [bool], 'perm': int}"""
    objs = []
    for h in ref.order:
        a = ref.assets[h]
        defaults = L.defenses(a.type)
        ev = ''
        for d in sorted(a.defenses):
            cap = d[0].upper() + d[1:]
            if a.defenses[d] != defaults[d] or op.get('all_defenses'):
                ev += (f'    <evidenceAttributes metaConcept="{cap}">\n'
                       f'      <evidenceDistribution type="Bernoulli">\n'
                       f'        <parameters name="probability" value="{a.defenses[d]!r}"/>\n'
                       f'      </evidenceDistribution>\n    </evidenceAttributes>\n')
            elif op.get('empty_dist'):
                # the way securiCAD itself exports a defense that was left at its default
                ev += (f'    <evidenceAttributes metaConcept="{cap}">\n'
                       f'      <evidenceDistribution type="Bernoulli">\n'
                       f'        <parameters name="probability"/>\n'
                       f'      </evidenceDistribution>\n    </evidenceAttributes>\n')
            else:
                ev += f'    <evidenceAttributes metaConcept="{cap}"/>\n'
        objs.append(f'  <objects description="" id="{a.id}" name={quoteattr(a.name)} '
                    f'metaConcept="{a.type}" template="false" exportedId="{a.id}">\n{ev}'
                    f'    <existence type="FixedBoolean">\n      <parameters name="fixed" value="1.0"/>\n'
                    f'    </existence>\n  </objects>\n')
    for k in ref.attacker_order:
        at = ref.attackers[k]
        objs.append(f'  <objects description="" id="{at.id}" name={quoteattr(at.name)} '
                    f'metaConcept="Attacker" template="false" exportedId="{at.id}">\n'
                    f'    <evidenceAttributes metaConcept="EntryPoint"/>\n  </objects>\n')
    rot = op.get('perm', 0)
    if objs:
        rot %= len(objs)
        objs = objs[rot:] + objs[:rot]
    links = []
    flips = op.get('flip', [])
    for n, (cls, l, r) in enumerate(pairwise_links(ref)):
        info = L.assoc_by_cls[cls]
        lid, rid = ref.assets[l].id, ref.assets[r].id
        # the object given as *target* sits in the field named by sourceProperty
        if n < len(flips) and flips[n]:
            links.append(f'  <associations description="" sourceObject="{lid}" targetObject="{rid}" '
                         f'id="{1000 + n}" sourceProperty="{info.rf}" targetProperty="{info.lf}"/>\n')
        else:
            links.append(f'  <associations description="" sourceObject="{rid}" targetObject="{lid}" '
                         f'id="{1000 + n}" sourceProperty="{info.lf}" targetProperty="{info.rf}"/>\n')
    epf = op.get('ep_flip', [])
    n = 0
    for k in ref.attacker_order:
        at = ref.attackers[k]
        for h, steps in at.eps:
            for st in steps:
                aid = ref.assets[h].id
                if n < len(epf) and epf[n]:
                    links.append(f'  <associations description="" sourceObject="{aid}" '
                                 f'targetObject="{at.id}" id="{5000 + n}" '
                                 f'sourceProperty="{st}.attacker" targetProperty="firstSteps"/>\n')
                else:
                    links.append(f'  <associations description="" sourceObject="{at.id}" '
                                 f'targetObject="{aid}" id="{5000 + n}" '
                                 f'sourceProperty="firstSteps" targetProperty="{st}.attacker"/>\n')
                n += 1
    if links:
        rot = op.get('perm', 0) % len(links)
        links = links[rot:] + links[:rot]
    xml = ('<?xml version="1.0" encoding="utf-8"?>\n'
           '<com.foreseeti.kernalCAD:XMIObjectModel xmi:version="2.0" '
           'xmlns:xmi="http://www.omg.org/XMI" '
           'xmlns:com.foreseeti.kernalCAD="http:///com/foreseeti/ObjectModel.ecore">\n'
           + ''.join(objs) + ''.join(links) + '</com.foreseeti.kernalCAD:XMIObjectModel>\n')
    import warnings
    with zipfile.ZipFile(path, 'w') as z:
        if op.get('stale_entry'):
            # the archive was exported to twice (append mode): an older, superseded
            # model.eom precedes the current one under the same name
            head, tail = xml.split('\n', 2)[:2], '</com.foreseeti.kernalCAD:XMIObjectModel>\n'
            z.writestr('model.eom', '\n'.join(head) + '\n' + tail)
        with warnings.catch_warnings():
            warnings.simplefilter('ignore')
            z.writestr('model.eom', xml)
        z.writestr('meta.json', '{}')
