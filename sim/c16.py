"""C16: see world_p.py"""
from .world_p import World, RULE, REAL, STUB, ASSUMPTIONS, new_run  # noqa: F401
