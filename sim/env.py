"""Process environment for the simulator.

* decides which tree `maltoolbox` is imported from (VERIF_REPO, default /repo:
  the *working tree*, so checks always see the current sources),
* owns the scratch directory on tmpfs (the "disk" of the simulation),
* makes sure `maltoolbox` is imported only after chdir into the scratch dir,
  because the import itself opens ./tmp/log.txt and the wrapper writes
  ./tmp/*.yml relative to cwd.

Nothing here draws random numbers or reads a clock.
"""
from __future__ import annotations

import atexit
import os
import shutil
import sys

VERIF_DIR = os.path.dirname(os.path.dirname(os.path.abspath(__file__)))
REPO = os.environ.get('VERIF_REPO', '/repo')

_base = None          # scratch base of this process tree
_owner_pid = None     # pid that created it (only that one removes it)
_imported = False


def scratch_base() -> str:
    """Create (once) and return this process tree's scratch directory."""
    global _base, _owner_pid
    if _base is None:
        root = '/dev/shm' if os.path.isdir('/dev/shm') else '/tmp'
        _base = os.path.join(root, f'mtbsim-{os.getpid()}')
        shutil.rmtree(_base, ignore_errors=True)
        # scratch directories of processes that were killed: nobody else removes them
        try:
            for d in os.listdir(root):
                if d.startswith('mtbsim-') and d[7:].isdigit():
                    try:
                        os.kill(int(d[7:]), 0)
                    except ProcessLookupError:
                        shutil.rmtree(os.path.join(root, d), ignore_errors=True)
                    except OSError:
                        pass
        except OSError:
            pass
        os.makedirs(os.path.join(_base, 'tmp'))
        _owner_pid = os.getpid()
        atexit.register(cleanup)
    return _base


def cleanup() -> None:
    if _base and _owner_pid == os.getpid():
        try:
            os.chdir('/')
        except OSError:
            pass
        shutil.rmtree(_base, ignore_errors=True)


def enter_scratch(sub: str | None = None) -> str:
    """chdir into (a sub directory of) the scratch base; returns the path."""
    base = scratch_base()
    path = base if sub is None else os.path.join(base, sub)
    os.makedirs(os.path.join(path, 'tmp'), exist_ok=True)
    os.chdir(path)
    return path


def import_toolbox():
    """Import maltoolbox from REPO's working tree, cwd being a scratch dir."""
    global _imported
    if not _imported:
        if os.getcwd().startswith(('/repo', VERIF_DIR)) or _base is None:
            enter_scratch()
        if REPO not in sys.path:
            sys.path.insert(0, REPO)
        import maltoolbox  # noqa: F401
        got = os.path.dirname(os.path.dirname(os.path.abspath(maltoolbox.__file__)))
        if os.path.realpath(got) != os.path.realpath(REPO):
            raise RuntimeError(f'maltoolbox imported from {got}, wanted {REPO}')
        import logging
        # keep the toolbox quiet: nothing it logs is an observation of ours
        logging.getLogger('maltoolbox').setLevel(logging.CRITICAL)
        _imported = True
    import maltoolbox
    return maltoolbox


def reexec_with_hashseed0() -> None:
    """Re-exec the current interpreter with PYTHONHASHSEED=0 (harness
    determinism: accidental hash-order dependence cannot differ between runs).
    """
    if os.environ.get('PYTHONHASHSEED') != '0':
        env = dict(os.environ)
        env['PYTHONHASHSEED'] = '0'
        os.execve(sys.executable, [sys.executable, '-m', 'sim.cli'] + sys.argv[1:], env)
