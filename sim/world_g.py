"""World G: attack graphs under histories of operations (C09-C14).

A model is built fault-free from recorded model ops (world M machinery); then
1-4 attack graphs live side by side: generated from (language, model),
hand-built with add_node the way the repository's tests do, deep copies and
reloaded ones.  Clients: mutator, attacker, analyst, copier, saver/restarter,
query client.  The reference graph (sim/refgraph.py) follows every step; content
that unclaimed properties govern (nodes/edges of a *generated* graph: C01/C02;
labels computed by the analysis outside the C08 check) is adopted from the
implementation, everything else is predicted independently.
"""
from __future__ import annotations

import copy
import json
import os
import random

from .engine import Violation, SetupRejected, Unresolvable
from .lang import Lang, canon
from .refgraph import RefGraph, RNode, RAttacker
from .world import BaseWorld, call, weighted, digest
from . import findings, faults
from . import world_m

RULE = ('one run = one language + one model (built from recorded fault-free model ops) and a seeded '
        'history of 10-50 operations over 1-4 attack graphs (generated / hand-built / deep copies / '
        'reloaded): add, link, remove node; attach, add, remove attacker; compromise / undo from '
        'either side; analysis; relabel; prune; deepcopy; save+load (json/yml, with/without model); '
        'regenerate (optionally after a model edit); surface queries; in-place edits of tags / '
        'extras / ttc. After every step on every live graph: structural invariants on the real '
        'objects and comparison with the reference graph. non-trivial = >=5 state-changing steps '
        'and >=1 step of the property\'s key kind; distinct = distinct event-log digest')
REAL = ['maltoolbox.attackgraph.AttackGraph', 'AttackGraphNode', 'Attacker',
        'maltoolbox.attackgraph.analyzers.apriori', 'maltoolbox.attackgraph.query',
        'maltoolbox.model.Model', 'maltoolbox.language.*', 'maltoolbox.file_utils', 'PyYAML', 'json']
STUB = ['fault shim around maltoolbox.file_utils.open (C10 storage errors)']
ASSUMPTIONS = [
    'nodes and edges of a freshly generated graph are adopted from the implementation (C01/C02 are not claimed)',
    'labels written by calculate_viability_and_necessity are adopted outside the C08 check',
    'child / parent / reached / entry lists are compared as multisets of ids',
    'operations across graphs (a node of one graph handed to another), removing a node twice, '
    'and nodes / attackers that carry an id from another graph are unspecified and not generated (a node or attacker '
    'of the same graph offered again is generated: refused without change, or carried out consistently)',
]

KEY_KIND = {'C09': ('remove_node', 'regenerate', 'add_node', 'remove_attacker'),
            'C10': ('saveload',), 'C11': ('remove_attacker', 'compromise', 'undo', 'attach',
                                          'add_attackers_late'),
            'C12': ('surface_update',), 'C13': ('prune',), 'C14': ('copy',)}

TTCS = [None, None, {}, {'type': 'function', 'name': 'Enabled', 'arguments': []},
        {'type': 'function', 'name': 'Disabled', 'arguments': []},
        {'type': 'function', 'name': 'Exponential', 'arguments': [0.1]},
        {'type': 'function', 'name': 'Bernoulli', 'arguments': [0.5]},
        {'type': 'function', 'name': 'EasyAndCertain', 'arguments': []}]
NODE_EXTRAS = [{}, {}, {'reward': 10}, {'pos': {'x': 1.5, 'y': -2}}, {'labels': ['a', 'b']},
               {'note': 'True'}, {'80': 'http', 'years': {'2024': 1, '-1': 0}}]
TAG_POOL = ['hidden', 'suppress', 'debug']


def _weights(prop, rng):
    w = {'new_generated': 2, 'new_hand': 2, 'add_node': 4, 'link': 6, 'remove_node': 3,
         'attach': 2, 'add_attacker': 3, 'remove_attacker': 2, 'compromise': 6, 'undo': 3,
         'analyse': 2, 'relabel': 3, 'prune': 1, 'copy': 1, 'saveload': 1, 'regenerate': 1,
         'model_edit': 1, 'reload_old': 0, 'add_attackers_late': 0, 'surface_query': 0, 'surface_update': 0, 'edit_inplace': 0,
         'defense_query': 0}
    if prop == 'C09':
        w.update(remove_node=5, regenerate=2, add_node=5, copy=1, saveload=1)
    elif prop == 'C10':
        w.update(saveload=5, attach=3, analyse=3, prune=2, edit_inplace=3, add_attacker=4,
                 model_edit=2, reload_old=2)
    elif prop == 'C11':
        w.update(compromise=10, undo=6, remove_attacker=5, attach=4, add_attacker=5, remove_node=2,
                 add_attackers_late=2, new_generated=3)
    elif prop == 'C12':
        w.update(surface_query=6, surface_update=8, compromise=4, relabel=6, analyse=2,
                 defense_query=3, edit_inplace=2, prune=0, regenerate=2, model_edit=1, saveload=0, copy=0,
                 remove_node=1)
    elif prop == 'C13':
        w.update(prune=6, relabel=10, analyse=3, compromise=4, add_attacker=3, link=8)
    elif prop == 'C14':
        w.update(copy=5, edit_inplace=6, compromise=8, add_attacker=4, remove_node=3, relabel=3,
                 prune=1, regenerate=1, saveload=0)
    # swarm: switch some kinds off in this run
    for k in list(w):
        if w[k] and k not in KEY_KIND.get(prop, ()) and k not in ('new_generated', 'new_hand',
                                                                   'add_node', 'link') \
                and rng.random() < 0.15:
            w[k] = 0
    return w


def new_run_for(prop, rng, tier):
    spec, src = world_m.pick_language(rng, tier, p_corelang=0.01,
                                      gen_cfg={'expr_depth': 2, 'max_types': 4})
    # ---- build the model by running a fault-free model world, recording the ops
    mcfg = {'prop': 'setup', 'guards': [], 'steps': rng.randint(3, 10), 'n_models': 1,
            'odd_names': rng.random() < 0.2, 'p_invalid': 0.0, 'p_reuse': 0.2,
            'w': {'add_asset': 6, 'set_defense': 1, 'remove_asset': 0, 'add_assoc': 5,
                  'remove_assoc': 0, 'remove_from_assoc': 0, 'add_attacker': 2,
                  'remove_attacker': 0, 'add_ep': 3, 'remove_ep': 0, 'restart': 0,
                  'foreign': 0, 'set_extras': 0, 'set_assoc_extras': 0}}
    mdesc = {'spec': spec, 'source': src, 'model_names': ['model', 'm2']}
    model_ops = []
    try:
        mw = world_m.ModelWorld(mcfg, mdesc)
        try:
            for _ in range(mcfg['steps'] if src != 'corelang' else 4):
                op = mw.gen_op(rng)
                if op is None:
                    break
                model_ops.append(op)
                mw.apply(op)
        finally:
            mw.close()
    except (SetupRejected, Violation):
        pass
    cfg = {'prop': prop, 'guards': findings.active_guards(prop),
           'steps': rng.randint(10, 50) if src != 'corelang' else rng.randint(6, 15),
           'w': _weights(prop, rng), 'mcfg': mcfg,
           'p_yaml': rng.choice([0.1, 0.25]),
           'storage_faults': prop == 'C10' and rng.random() < 0.3,
           'p_hand': rng.choice([0.3, 0.6, 0.9]), 'max_hand_nodes': 14}
    if tier == 'thorough' and src != 'corelang' and rng.random() < 0.5:
        cfg['steps'] = rng.randint(40, 110)
        cfg['max_hand_nodes'] = rng.choice([14, 24, 40])
    return cfg, {'spec': spec, 'source': src, 'model_ops': model_ops}


# ----------------------------------------------------------------------------
# observation of a real graph (identity / ids only)
# ----------------------------------------------------------------------------

def _f(x):
    return None if x is None else float(x)


def typed_keys(x):
    """JSON-able view in which the *type* of every dict key survives ('80' vs 80)."""
    if isinstance(x, dict):
        return {'<dict>': sorted(([type(k).__name__, str(k), typed_keys(v)] for k, v in x.items()),
                                 key=lambda t: (t[0], t[1]))}
    if isinstance(x, (list, tuple)):
        return [typed_keys(v) for v in x]
    return x


def observe_graph(g):
    nodes = []
    for n in g.nodes:
        nodes.append({
            'id': n.id, 'name': n.name, 'type': n.type,
            'asset': str(n.asset.name) if n.asset is not None else None,
            'ttc': n.ttc, 'defense_status': _f(n.defense_status),
            'existence_status': n.existence_status,
            'is_viable': bool(n.is_viable) if isinstance(n.is_viable, int) else n.is_viable,
            'is_necessary': bool(n.is_necessary) if isinstance(n.is_necessary, int) else n.is_necessary,
            'tags': list(n.tags) if isinstance(n.tags, (list, tuple)) else n.tags,
            'mitre': n.mitre_info, 'extras': typed_keys(n.extras),
            'children': sorted(c.id for c in n.children),
            'parents': sorted(p.id for p in n.parents),
            'compromised_by': sorted(a.id for a in n.compromised_by)})
    attackers = []
    for a in g.attackers:
        attackers.append({'id': a.id, 'name': a.name,
                          'entry': sorted(n.id for n in a.entry_points),
                          'reached': sorted(n.id for n in a.reached_attack_steps)})
    return {'nodes': sorted(nodes, key=lambda d: (d['id'] is None, d['id'], d['name'])),
            'attackers': sorted(attackers, key=lambda d: (d['id'] is None, d['id'], d['name']))}


class Slot:
    def __init__(self, g, ref, kind):
        self.g = g
        self.ref = ref
        self.kind = kind
        self.nmap = {}      # node handle -> real node
        self.amap = {}      # attacker handle -> real attacker
        self.live = True
        self.surface = {}   # attacker handle -> maintained surface list (real nodes) or None
        self.copied_from = None
        self.mutated_since_copy = False
        self.uncopyable = False
        self.stale = {}     # handle -> node object that was removed from this graph (hand graphs)


class GraphWorld(BaseWorld):
    def __init__(self, cfg, desc):
        super().__init__(cfg, desc)
        from maltoolbox.attackgraph import AttackGraph, AttackGraphNode, Attacker
        from maltoolbox.attackgraph.analyzers import apriori
        from maltoolbox.attackgraph import query
        self.AttackGraph, self.AttackGraphNode, self.Attacker = AttackGraph, AttackGraphNode, Attacker
        self.apriori, self.query = apriori, query
        self.prop = cfg['prop']
        self.armed = {self.prop}
        self._tmp_armed = set()
        self.old_files = []
        self._state_digest = ''
        # the model (world M machinery, nothing armed)
        mcfg = dict(cfg['mcfg'])
        self.mw = world_m.ModelWorld(mcfg, {'spec': desc['spec'], 'source': desc.get('source'),
                                            'model_names': ['model', 'm2']})
        for op in desc.get('model_ops', []):
            try:
                self.mw.apply(op)
            except Unresolvable:
                continue
        self.L = self.mw.L
        self.lg = self.mw.lg
        self.slots = []
        self.nh = 0
        self.ah = 0
        self.state_changes = 0
        self.key_events = 0
        self.kinds_done = set()
        if desc.get('source') == 'corelang':
            self.count('probe:corelang')

    @property
    def model(self):
        return self.mw.models[0]

    @property
    def mref(self):
        return self.mw.refs[0]

    def close(self):
        try:
            self.mw.close()
        finally:
            super().close()

    # ------------------------------------------------------------ plumbing
    def fail(self, clause, msg):
        fam = clause.split('.')[0]
        if fam in self.armed or fam in self._tmp_armed:
            raise Violation(clause, msg)
        self.count('desync:' + clause)
        raise SetupRejected('desync:' + clause)

    def guard(self, name):
        if name in self.guards:
            self.count('guarded:' + name)
            return True
        return False

    def new_nh(self):
        self.nh += 1
        return f'n{self.nh}'

    def new_ah(self):
        self.ah += 1
        return f'k{self.ah}'

    def slot(self, gi):
        if gi is None or gi >= len(self.slots) or not self.slots[gi].live:
            raise Unresolvable()
        return self.slots[gi]

    def live_slots(self):
        return [i for i, s in enumerate(self.slots) if s.live]

    def _bump(self, op):
        for key in ('h', 'n', 'k'):
            v = op.get(key)
            if isinstance(v, str) and v[1:].isdigit():
                if v[0] == 'n':
                    self.nh = max(self.nh, int(v[1:]))
                elif v[0] == 'k':
                    self.ah = max(self.ah, int(v[1:]))

    # -------------------------------------------------------- adopt / bind
    def adopt(self, slot: Slot):
        """(Re)build the reference graph of a slot from the real graph: used for
        freshly *generated* graphs (content governed by unclaimed C01/C02)."""
        g = slot.g
        ref = RefGraph()
        ref.has_model = g.model is not None
        slot.nmap = {}
        slot.amap = {}
        hmap = {}
        for n in g.nodes:
            h = self.new_nh()
            hmap[id(n)] = h
            slot.nmap[h] = n
            ref.add_node(RNode(h, id=n.id, name=n.name, type=n.type,
                               asset=str(n.asset.name) if n.asset is not None else None,
                               ttc=n.ttc, defense_status=_f(n.defense_status),
                               existence_status=n.existence_status, is_viable=n.is_viable,
                               is_necessary=n.is_necessary, tags=list(n.tags or []),
                               mitre=n.mitre_info, extras=n.extras))
        for n in g.nodes:
            for c in n.children:
                if id(c) in hmap:
                    ref.link(hmap[id(n)], hmap[id(c)])
        for a in g.attackers:
            k = self.new_ah()
            slot.amap[k] = a
            ra = RAttacker(k, a.name, a.id)
            ra.entry = [hmap[id(n)] for n in a.entry_points if id(n) in hmap]
            ra.reached = [hmap[id(n)] for n in a.reached_attack_steps if id(n) in hmap]
            ref.add_attacker(ra)
        slot.ref = ref
        slot.surface = {}

    def adopt_labels(self, slot):
        for h, n in slot.nmap.items():
            rn = slot.ref.nodes[h]
            rn.is_viable, rn.is_necessary = n.is_viable, n.is_necessary

    def rebind_by_id(self, slot, new_g):
        """After save+load: same handles, objects found by id."""
        by_id = {n.id: n for n in new_g.nodes}
        slot.nmap = {h: by_id[slot.ref.nodes[h].id] for h in slot.ref.order}
        att = {a.id: a for a in new_g.attackers}
        slot.amap = {k: att[slot.ref.attackers[k].id] for k in slot.ref.attacker_order}
        slot.g = new_g
        slot.surface = {}

    # ---------------------------------------------------------------- oracles
    def check_structure(self, slot, where):
        """C09 invariants on the real objects + C11 symmetry.  The family the
        check is about goes first, so that it is the one reported."""
        if self.prop == 'C11':
            self._chk_c11(slot, where)
            self._chk_c09(slot, where)
        else:
            self._chk_c09(slot, where)
            self._chk_c11(slot, where)

    def _chk_c09(self, slot, where):
        g = slot.g
        self.count('oracle:C09.refs')
        members = {id(n) for n in g.nodes}
        if len(members) != len(g.nodes):
            self.fail('C09.refs', f'after {where}: a node object is stored twice in graph.nodes')
        for n in g.nodes:
            for c in n.children:
                if id(c) not in members:
                    self.fail('C09.refs', f'after {where}: {n.full_name} has a child '
                                          f'{c.full_name} that is not in the graph')
                if sum(1 for x in c.parents if x is n) != sum(1 for x in n.children if x is c):
                    self.fail('C09.refs', f'after {where}: edge {n.full_name} -> {c.full_name} is '
                                          f'not mirrored in the child\'s parents')
            for p in n.parents:
                if id(p) not in members:
                    self.fail('C09.refs', f'after {where}: {n.full_name} has a parent '
                                          f'{p.full_name} that is not in the graph')
                if sum(1 for x in p.children if x is n) != sum(1 for x in n.parents if x is p):
                    self.fail('C09.refs', f'after {where}: edge {p.full_name} -> {n.full_name} is '
                                          f'not mirrored in the parent\'s children')
        # indexes
        self.count('oracle:C09.index')
        ids = [n.id for n in g.nodes]
        if len(set(ids)) != len(ids):
            dup = sorted({i for i in ids if ids.count(i) > 1})
            self.fail('C09.index', f'after {where}: node id(s) {dup} given to two nodes')
        names = {}
        for n in g.nodes:
            r = call(g.get_node_by_id, n.id)
            if r.raised or r.value is not n:
                self.fail('C09.index', f'after {where}: get_node_by_id({n.id}) does not return '
                                       f'the node {n.full_name} that is in the graph')
            names.setdefault(n.full_name, []).append(n)
        for fn, ns in names.items():
            if len(ns) == 1:
                r = call(g.get_node_by_full_name, fn)
                if r.raised or r.value is not ns[0]:
                    self.fail('C09.index', f'after {where}: get_node_by_full_name({fn!r}) does not '
                                           f'return the node that is in the graph')
        for rid in slot.ref.removed_ids[-4:]:
            if rid not in ids:
                r = call(g.get_node_by_id, rid)
                if r.raised or r.value is not None:
                    self.fail('C09.index', f'after {where}: get_node_by_id({rid}) still returns '
                                           f'a node that was removed')
        for rn in slot.ref.removed_names[-4:]:
            if rn not in names:
                r = call(g.get_node_by_full_name, rn)
                if r.raised or r.value is not None:
                    self.fail('C09.index', f'after {where}: get_node_by_full_name({rn!r}) still '
                                           f'returns a node that was removed')
        # names the steps had in the file this graph was loaded from (asset:step; after a load
        # without the model the nodes go by id:step): whatever such a name resolves to, it is
        # never a node that is not in the graph
        in_graph = {id(n) for n in g.nodes}
        for fn in getattr(slot, 'file_names', [])[:40]:
            r = call(g.get_node_by_full_name, fn)
            if not r.raised and r.value is not None and id(r.value) not in in_graph:
                self.fail('C09.index', f'after {where}: get_node_by_full_name({fn!r}) (the name the '
                                       f'step had in the file the graph was loaded from) returns a '
                                       f'node that is not in the graph')
        aids = [a.id for a in g.attackers]
        for a in g.attackers:
            if aids.count(a.id) == 1:
                r = call(g.get_attacker_by_id, a.id)
                if r.raised or r.value is not a:
                    self.fail('C09.index', f'after {where}: get_attacker_by_id({a.id}) does not '
                                           f'return the attacker that is in the graph')
        for rid in slot.ref.removed_attacker_ids[-3:]:
            if rid not in aids:
                r = call(g.get_attacker_by_id, rid)
                if r.raised or r.value is not None:
                    self.fail('C09.index', f'after {where}: get_attacker_by_id({rid}) still returns '
                                           f'a removed attacker')
        # attackers <-> nodes
        self.count('oracle:C09.attackers')
        amembers = {id(a) for a in g.attackers}
        for a in g.attackers:
            for n in list(a.reached_attack_steps) + list(a.entry_points):
                if id(n) not in members:
                    self.fail('C09.attackers', f'after {where}: attacker {a.name!r} references '
                                               f'node {n.full_name} that is not in the graph')
        for n in g.nodes:
            for a in n.compromised_by:
                if id(a) not in amembers:
                    self.fail('C09.attackers', f'after {where}: node {n.full_name} is compromised '
                                               f'by attacker {a.name!r} that is not in the graph')
    def _chk_c11(self, slot, where):
        g = slot.g
        self.count('oracle:C11.symmetric')
        for a in g.attackers:
            for n in a.reached_attack_steps:
                if not any(x is a for x in n.compromised_by):
                    self.fail('C11.symmetric', f'after {where}: attacker {a.name!r}({a.id}) lists '
                                               f'{n.full_name} as reached but the node does not '
                                               f'list the attacker')
            if len({id(n) for n in a.reached_attack_steps}) != len(a.reached_attack_steps):
                self.fail('C11.symmetric', f'after {where}: attacker {a.name!r} lists a node twice')
        for n in g.nodes:
            for a in n.compromised_by:
                if not any(x is n for x in a.reached_attack_steps):
                    self.fail('C11.symmetric', f'after {where}: node {n.full_name} lists attacker '
                                               f'{a.name!r}({a.id}) but the attacker does not list '
                                               f'the node as reached')
                r = call(n.is_compromised_by, a)
                if r.raised or r.value is not True:
                    self.fail('C11.symmetric', f'after {where}: is_compromised_by disagrees with '
                                               f'compromised_by on {n.full_name}')

    def check_ref(self, slot, where, clause='C09.ref'):
        self.count('oracle:' + clause)
        o = call(observe_graph, slot.g)
        if o.raised:
            self.fail(clause, f'after {where}: observing the graph raised {o.exc!r}')
        got = json.loads(canon(o.value))
        exp = json.loads(canon(slot.ref.observe()))
        if slot.uncopyable:
            # extras hold a value that has no stable representation: not compared
            for side in (got, exp):
                for n_ in side['nodes']:
                    n_['extras'] = None
        self._state_digest = digest([self._state_digest, exp])
        if got != exp:
            # attribute the difference to the clause family that owns it
            cl = clause
            if clause == 'C09.ref':
                ga = [(a['id'], a['reached']) for a in got['attackers']]
                ea = [(a['id'], a['reached']) for a in exp['attackers']]
                gc = [(n['id'], n['compromised_by']) for n in got['nodes']]
                ec = [(n['id'], n['compromised_by']) for n in exp['nodes']]
                gs = [(n['id'], n['children'], n['parents']) for n in got['nodes']]
                es = [(n['id'], n['children'], n['parents']) for n in exp['nodes']]
                if gs == es and (ga != ea or gc != ec):
                    cl = 'C11.ref'
            self.fail(cl, f'after {where}: graph differs from the reference graph\n'
                      + world_m._obs_diff(exp, got))

    def check_all(self, where, only=None):
        if self.prop == 'C14' and only is not None:
            # what C14 is about first: nothing done to one graph shows in another one
            for i in self.live_slots():
                if i != only:
                    self.check_ref(self.slots[i], f'{where} [graph {i}, not the one acted on]',
                                   'C14.independent')
        for i in self.live_slots():
            if only is not None and i != only and self.prop != 'C14':
                # other graphs cannot have changed unless something is shared; checking
                # them all every step is exactly the C14 independence oracle - for the
                # other properties a cheaper rotation is used
                if (self.state_changes + i) % 3:
                    continue
            s = self.slots[i]
            if self.prop == 'C14' and s.copied_from is not None and (only is None or i == only):
                # a copy that is equal to its original behaves like it: whatever an operation
                # on a copy gets wrong (hidden state that was not copied, ...) is C14's business
                self._tmp_armed = {'C09', 'C11'}
                try:
                    self.check_structure(s, f'{where} [graph {i}, a copy]')
                    self.check_ref(s, f'{where} [graph {i}, a copy]', 'C14.behaves')
                except Violation as v:
                    raise Violation('C14.behaves', v.message) from None
                finally:
                    self._tmp_armed = set()
                continue
            self.check_structure(s, f'{where} [graph {i}]')
            self.check_ref(s, f'{where} [graph {i}]',
                           'C14.independent' if (self.prop == 'C14' and only is not None
                                                 and i != only) else 'C09.ref')

    # --------------------------------------------------------- op generation
    def gen_op(self, rng):
        w = self.cfg['w']
        live = self.live_slots()
        if not live:
            kind = 'new_hand' if rng.random() < self.cfg.get('p_hand', 0.5) else 'new_generated'
            return getattr(self, 'gen_' + kind)(rng, None)
        al = getattr(self, '_after_load', None)
        if self.prop == 'C10' and al is not None and al[0] in live:
            al[2] += 1
            if al[2] == 1 and rng.random() < 0.5:
                op = self.gen_edit_inplace(rng, al[0])
                if op is not None:
                    return op
            elif al[2] == 2:
                self._after_load = None
                if rng.random() < 0.6 and len(live) < 4:
                    return {'op': 'reload_old', 'i': al[1]}
            else:
                self._after_load = None
        want, self._copy_next = getattr(self, '_copy_next', None), None
        if self.prop == 'C14' and want in live and len(live) < 4 and rng.random() < 0.5:
            return self.gen_copy(rng, want)
        table = [(w[k], k) for k in sorted(w) if w[k] > 0]
        if len(live) >= 4:
            table = [(x, k) for x, k in table if k not in ('new_generated', 'new_hand', 'copy')]
        for _ in range(10):
            kind = weighted(rng, table)
            gi = rng.choice(live)
            op = getattr(self, 'gen_' + kind)(rng, gi)
            if op is not None:
                return op
        return None

    def gen_new_generated(self, rng, gi):
        return {'op': 'new_generated'}

    def gen_new_hand(self, rng, gi):
        return {'op': 'new_hand'}

    def _rand_node_spec(self, rng):
        typ = weighted(rng, [(5, 'or'), (4, 'and'), (2, 'defense'), (1, 'exist'), (1, 'notExist')])
        d = {'type': typ, 'ttc': copy.deepcopy(rng.choice(TTCS)),
             'tags': sorted(rng.sample(TAG_POOL, rng.choice([0, 0, 1, 2]))),
             'extras': copy.deepcopy(rng.choice(NODE_EXTRAS)),
             'mitre': rng.choice([None, None, 'T1078', ''])}
        if typ == 'defense':
            d['defense_status'] = rng.choice([0.0, 1.0, 0.5, 1.0, 0.0, 0.9999999999999999])
            d['ttc'] = copy.deepcopy(rng.choice(TTCS[:5]))
        if typ in ('exist', 'notExist'):
            d['existence_status'] = rng.random() < 0.5
            d['ttc'] = None
        return d

    def gen_add_node(self, rng, gi):
        s = self.slots[gi]
        if len(s.ref.order) >= self.cfg.get('max_hand_nodes', 14) and s.kind == 'hand' \
                and rng.random() < 0.8:
            return None
        if len(s.ref.order) >= 60:
            return None
        ids = sorted(s.ref.ids())
        if s.ref.order and rng.random() < 0.08:
            # a node that already is in this graph is offered again: without an id, under
            # a free id, under the id of another node
            h = rng.choice(s.ref.order)
            others = [i for i in ids if i != s.ref.nodes[h].id]
            how = rng.choice(['none', 'free', 'other']) if others else rng.choice(['none', 'free'])
            nid = {'none': None, 'free': (max(ids) if ids else 0) + rng.choice([1, 4]),
                   'other': rng.choice(others) if others else None}[how]
            return {'op': 'readd_node', 'g': gi, 'n': h, 'node_id': nid}
        d = self._rand_node_spec(rng)
        nid = None
        r = rng.random()
        if r < 0.25:
            nid = rng.choice([0, 5, 9, 17, 40, 100, -1, -2])
        elif r < 0.35 and s.ref.removed_ids:
            nid = s.ref.removed_ids[-1]
        elif r < 0.45 and ids:
            nid = rng.choice(ids)                    # in use
        if nid is not None and nid in ids and self.guard('add_node_id_in_use'):
            nid = None
        op = {'op': 'add_node', 'g': gi, 'h': self.new_nh(), 'name': f's{self.nh}', 'node_id': nid}
        op.update(d)
        return op

    def gen_link(self, rng, gi):
        s = self.slots[gi]
        if s.kind != 'hand' or len(s.ref.order) < 1:
            return None
        p = rng.choice(s.ref.order)
        c = rng.choice(s.ref.order) if rng.random() < 0.9 else p
        if (p, c) in s.ref.edges and rng.random() < 0.9:
            return None
        return {'op': 'link', 'g': gi, 'p': p, 'c': c}

    def gen_remove_node(self, rng, gi):
        s = self.slots[gi]
        if s.stale and rng.random() < 0.25:
            h = rng.choice(sorted(s.stale))
            if rng.random() < 0.5:
                # ... or the removed node is put back (add, remove, add)
                return {'op': 'readd_removed_node', 'g': gi, 'n': h, 'h': self.new_nh(),
                        'node_id': rng.choice([None, None, 'old'])}
            return {'op': 'remove_node_again', 'g': gi, 'n': h}
        if not s.ref.order:
            return None
        r = rng.random()
        cands = s.ref.order
        if r < 0.3:
            comp = [h for h in s.ref.order if s.ref.compromised_by(h)
                    or any(h in a.entry for a in s.ref.attackers.values())]
            if comp:
                if self.guard('remove_compromised_node'):
                    return None
                cands = comp
        elif self.guards and 'remove_compromised_node' in self.guards:
            cands = [h for h in s.ref.order if not s.ref.compromised_by(h)
                     and not any(h in a.entry for a in s.ref.attackers.values())]
            if not cands:
                return None
        return {'op': 'remove_node', 'g': gi, 'n': rng.choice(cands)}

    def gen_attach(self, rng, gi):
        s = self.slots[gi]
        if not s.ref.has_model or len(s.ref.attacker_order) >= 4:
            return None
        return {'op': 'attach', 'g': gi}

    def gen_add_attacker(self, rng, gi):
        s = self.slots[gi]
        if len(s.ref.attacker_order) >= 4:
            return None
        used = {a.id for a in s.ref.attackers.values()}
        if s.ref.attacker_order and rng.random() < 0.12:
            # an attacker that already is in the graph is offered again: under the id of
            # another attacker, under a free id, or without one
            k = rng.choice(s.ref.attacker_order)
            others = sorted(used - {s.ref.attackers[k].id})
            how = rng.choice(['other', 'other', 'free', 'none']) if others else rng.choice(['free', 'none'])
            kid = {'other': rng.choice(others) if others else None, 'free': max(used) + rng.choice([1, 5]),
                   'none': None}[how]
            return {'op': 'readd_attacker', 'g': gi, 'k': k, 'id': kid,
                    'then_remove': rng.random() < 0.5}
        r = rng.random()
        kid = None
        if r < 0.2:
            kid = 0
        elif r < 0.4:
            kid = rng.choice([1, 2, 7, 30, -3])
        elif r < 0.48 and used:
            kid = rng.choice(sorted(used))          # in use: must be refused
        if kid == 0 and self.guard('attacker_id0'):
            kid = None
        names = [a.name for a in s.ref.attackers.values()]
        name = rng.choice(['eve', 'mallory', 'Attacker:1', 'x'])
        if names and rng.random() < 0.25:
            name = rng.choice(names)                # same name as another attacker
            if self.guard('same_name_attackers'):
                name = 'a%d' % self.ah
        reached = rng.sample(s.ref.order, min(len(s.ref.order), rng.choice([0, 1, 2, 3, 5])))
        entry = [h for h in reached if rng.random() < 0.7]
        if reached and rng.random() < 0.15:
            reached = reached + [rng.choice(reached)]       # the same step named twice
        if s.ref.order and rng.random() < 0.12:
            reached, entry = [], [rng.choice(s.ref.order)]  # entry points only, nothing reached
        bad = None
        if reached and rng.random() < 0.15 and not self.guard('add_attacker_unknown_node'):
            bad = rng.choice(['reached', 'entry'])
        return {'op': 'add_attacker', 'g': gi, 'k': self.new_ah(), 'name': name, 'id': kid,
                'reached': reached, 'entry': entry, 'bad_then_retry': bad}

    def gen_add_attackers_late(self, rng, gi):
        s = self.slots[gi]
        if len(s.ref.attacker_order) >= 3 or not s.ref.order:
            return None
        nodes = rng.sample(s.ref.order, min(len(s.ref.order), rng.choice([1, 2, 3])))
        ks = [self.new_ah(), self.new_ah()]
        return {'op': 'add_attackers_late', 'g': gi, 'ks': ks,
                'names': [f'late{ks[0]}', f'late{ks[1]}'], 'nodes': nodes,
                'second_on': [h for h in nodes if rng.random() < 0.7],
                'pass_reached': rng.random() < 0.5}

    def gen_remove_attacker(self, rng, gi):
        s = self.slots[gi]
        if not s.ref.attacker_order:
            return None
        # bias: attackers with several reached nodes
        ks = sorted(s.ref.attacker_order, key=lambda k: -len(s.ref.attackers[k].reached))
        k = ks[0] if rng.random() < 0.6 else rng.choice(ks)
        return {'op': 'remove_attacker', 'g': gi, 'k': k}

    def gen_compromise(self, rng, gi):
        s = self.slots[gi]
        if not s.ref.attacker_order or not s.ref.order:
            return None
        k = rng.choice(s.ref.attacker_order)
        a = s.ref.attackers[k]
        others = [h for k2 in s.ref.attacker_order[s.ref.attacker_order.index(k) + 1:]
                  for h in s.ref.attackers[k2].reached if h not in a.reached]
        if others and rng.random() < (0.6 if self.prop == 'C14' else 0.3):
            # a step that an attacker further down the list already holds: the node then
            # lists its attackers in another order than the graph does
            h = rng.choice(others)
        elif a.reached and rng.random() < 0.25:
            h = rng.choice(a.reached)               # second compromise: no-op
        elif a.reached and rng.random() < 0.5:
            # adjacent to something reached
            adj = [c for r_ in a.reached for c in s.ref.children(r_)]
            h = rng.choice(adj) if adj else rng.choice(s.ref.order)
        else:
            h = rng.choice(s.ref.order)
        return {'op': 'compromise', 'g': gi, 'k': k, 'n': h,
                'side': rng.choice(['attacker', 'node'])}

    def gen_undo(self, rng, gi):
        s = self.slots[gi]
        if not s.ref.attacker_order or not s.ref.order:
            return None
        k = rng.choice(s.ref.attacker_order)
        a = s.ref.attackers[k]
        if a.reached and rng.random() < 0.75:
            h = rng.choice(a.reached)
        else:
            h = rng.choice(s.ref.order)             # not compromised: no-op
        return {'op': 'undo', 'g': gi, 'k': k, 'n': h, 'side': rng.choice(['attacker', 'node'])}

    def gen_analyse(self, rng, gi):
        return {'op': 'analyse', 'g': gi}

    def gen_relabel(self, rng, gi):
        s = self.slots[gi]
        if not s.ref.order:
            return None
        # label a *run* of adjacent nodes (storage order) - the shape pruning trips over
        i = rng.randrange(len(s.ref.order))
        run = s.ref.order[i:i + rng.choice([1, 1, 2, 3, 4])]
        labs = [[rng.random() < 0.5, rng.random() < 0.6] for _ in run]
        op = {'op': 'relabel', 'g': gi, 'nodes': run, 'labels': labs}
        if self.prop in ('C13', 'C12') and rng.random() < 0.15:
            op['as_int'] = True         # the caller writes 0 / 1: falsy and truthy like False / True
        return op

    def gen_prune(self, rng, gi):
        return {'op': 'prune', 'g': gi}

    def gen_reload_old(self, rng, gi):
        live = [i for i, f in enumerate(self.old_files) if os.path.exists(f[0])]
        if not live or len(self.live_slots()) >= 4:
            return None
        return {'op': 'reload_old', 'i': rng.choice(live)}

    def gen_copy(self, rng, gi):
        op = {'op': 'copy', 'g': gi}
        if rng.random() < 0.3:
            op['probe_ids'] = [self.new_nh(), self.new_nh()]
        return op

    def gen_saveload(self, rng, gi):
        s = self.slots[gi]
        if s.uncopyable:
            return None
        fmt = 'yml' if rng.random() < self.cfg.get('p_yaml', 0.2) else 'json'
        with_model = s.ref.has_model and rng.random() < 0.6
        fault = None
        if self.cfg.get('storage_faults') and rng.random() < 0.3:
            fault = {'phase': rng.choice(['save', 'load']), 'kind': rng.choice(['ENOSPC', 'EIO']),
                     'at': rng.choice(['write', 'close', 'open']), 'after': rng.choice([0, 10, 300])}
            if fault['phase'] == 'load':
                fault.update(kind='EIO', at=rng.choice(['read', 'open']))
        names = [a.name for a in s.ref.attackers.values()]
        if len(set(names)) != len(names) and self.guard('same_name_attackers'):
            return None
        return {'op': 'saveload', 'g': gi, 'fmt': fmt, 'with_model': with_model, 'fault': fault}

    def gen_regenerate(self, rng, gi):
        s = self.slots[gi]
        if s.kind != 'generated':
            return None
        return {'op': 'regenerate', 'g': gi}

    def gen_model_edit(self, rng, gi):
        # a valid model op (asset / association / defense / attacker added) between a
        # generate and a regenerate
        if not any(self.slots[i].kind == 'generated' for i in self.live_slots()):
            return None
        mref = self.mref
        if mref.order and rng.random() < 0.4:
            h = rng.choice(mref.order)
            ra = mref.assets[h]
            return {'op': 'model_edit', 'mops': [
                {'op': 'remove_asset', 'h': h, 'm': 0},
                {'op': 'add_asset', 'h': self.mw.new_handle('a'), 'type': ra.type, 'name': ra.name,
                 'id': ra.id, 'allow_dup': True, 'defenses': dict(ra.defenses), 'ctor': True,
                 'extras': None, 'm': 0}], 'kind': 'replace'}
        sub = random.Random(rng.random())
        mop = self.mw.gen_op(sub)
        if mop is None:
            return None
        return {'op': 'model_edit', 'mops': [mop]}

    def gen_surface_query(self, rng, gi):
        s = self.slots[gi]
        if not s.ref.attacker_order:
            return None
        return {'op': 'surface_query', 'g': gi, 'k': rng.choice(s.ref.attacker_order)}

    def gen_surface_update(self, rng, gi):
        s = self.slots[gi]
        if not s.ref.attacker_order or not s.ref.order:
            return None
        k = rng.choice(s.ref.attacker_order)
        a = s.ref.attackers[k]
        # batch: mostly from the current surface / children of reached nodes
        pool = [c for r_ in a.reached for c in s.ref.children(r_)] or list(s.ref.order)
        batch = []
        for _ in range(rng.choice([1, 1, 2, 3])):
            h = rng.choice(pool) if rng.random() < 0.8 else rng.choice(s.ref.order)
            if h not in batch:
                batch.append(h)
        return {'op': 'surface_update', 'g': gi, 'k': k, 'batch': batch}

    def gen_defense_query(self, rng, gi):
        return {'op': 'defense_query', 'g': gi}

    def gen_edit_inplace(self, rng, gi):
        s = self.slots[gi]
        if not s.ref.order:
            return None
        h = rng.choice(s.ref.order)
        what = rng.choice(['tags', 'extras', 'ttc', 'ttc'])
        if rng.random() < 0.25:
            # not an edit of the object in place: a new list / dict is assigned
            return {'op': 'edit_inplace', 'g': gi, 'n': h, 'what': rng.choice(['new_tags', 'new_ttc']),
                    'value': rng.choice(['zz', 'q1', 'edited'])}
        if what == 'ttc' and not s.ref.nodes[h].ttc:
            with_ttc = [x for x in s.ref.order if s.ref.nodes[x].ttc]
            if with_ttc:
                h = rng.choice(with_ttc)
            else:
                what = 'extras'
        if what == 'ttc' and self.guard('ttc_shared_by_copy'):
            what = 'tags'
        if self.prop == 'C14' and rng.random() < 0.08:
            what = 'uncopyable'
        defs = [x for x in s.ref.order if s.ref.nodes[x].type == 'defense']
        if defs and rng.random() < (0.8 if self.prop == 'C12' else 0.2):
            # a defense switched in the graph: whole numbers the way a caller writes them,
            # and values a hair away from the two ends
            return {'op': 'edit_inplace', 'g': gi, 'n': rng.choice(defs), 'what': 'defense',
                    'value': rng.choice([1, 0, 1, 0.9999999999999999, 1e-12, 0.5, 1.0, 0.0])}
        return {'op': 'edit_inplace', 'g': gi, 'n': h, 'what': what,
                'value': rng.choice(['zz', 'q1', 'edited'])}

    # ------------------------------------------------------------- execution
    def apply(self, op):
        kind = op['op']
        fn = getattr(self, 'do_' + kind, None)
        if fn is None:
            raise Unresolvable()
        self._bump(op)
        self.count('op:' + kind)
        self._state_digest = ''
        out = fn(op)
        self.count('out:' + out)
        if kind in KEY_KIND.get(self.prop, ()) and out == 'ok':
            self.key_events += 1
        self.kinds_done.add(kind)
        return [kind, out, self._state_digest]

    def nontrivial(self):
        return self.state_changes >= 5 and self.key_events >= 1

    def _touch(self, slot):
        self.state_changes += 1
        slot.mutated_since_copy = True
        # a change that is not "compromise more" invalidates maintained surfaces
        return None

    def _invalidate_surfaces(self, slot):
        slot.surface = {}

    # -- graph creation
    def do_new_generated(self, op):
        if len(self.live_slots()) >= 4:
            raise Unresolvable()
        o = call(self.AttackGraph, self.lg, self.model)
        if o.raised:
            raise SetupRejected('generate:' + o.exc_name())
        s = Slot(o.value, None, 'generated')
        self.adopt(s)
        self.slots.append(s)
        self.state_changes += 1
        self.count('probe:generated_graph')
        self.check_all('AttackGraph(lang, model)', only=len(self.slots) - 1)
        return 'ok'

    def do_new_hand(self, op):
        if len(self.live_slots()) >= 4:
            raise Unresolvable()
        g = self.AttackGraph()
        ref = RefGraph()
        s = Slot(g, ref, 'hand')
        self.slots.append(s)
        self.count('probe:hand_built_graph')
        return 'ok'

    def do_add_node(self, op):
        s = self.slot(op['g'])
        h = op['h']
        if h in s.nmap or h in s.ref.nodes:
            raise Unresolvable()
        kw = dict(type=op['type'], name=op['name'], ttc=copy.deepcopy(op.get('ttc')),
                  tags=list(op.get('tags') or []), extras=copy.deepcopy(op.get('extras') or {}),
                  mitre_info=op.get('mitre'))
        if 'defense_status' in op:
            kw['defense_status'] = op['defense_status']
        if 'existence_status' in op:
            kw['existence_status'] = op['existence_status']
        node = self.AttackGraphNode(**kw)
        if op.get('peek_name', True):
            call(lambda: node.full_name)        # a caller may look at the name before adding the node
        nid = op.get('node_id')
        in_use = nid is not None and nid in s.ref.ids()
        o = call(s.g.add_node, node) if nid is None else call(s.g.add_node, node, node_id=nid)
        where = f'add_node({op["type"]} {op["name"]!r}, node_id={nid})'
        if in_use:
            self.count('fault:rejected_node_id_in_use')
            if not o.raised:
                # may raise; if it does not, no id may end up on two nodes
                self.check_structure(s, where + ' [id in use, accepted]')
                self.fail('C09.index', f'{where}: id in use was accepted')
            self.check_all(where + ' [rejected]', only=op['g'])
            return 'rejected'
        if o.raised:
            self.fail('C09.must_not_raise', f'{where} raised {o.exc!r}')
        if nid is not None and node.id != nid:
            self.fail('C09.index', f'{where}: node got id {node.id}')
        if not isinstance(node.id, int) or node.id in s.ref.ids():
            self.fail('C09.index', f'{where}: node got id {node.id!r}, ids in use {sorted(s.ref.ids())}')
        rn = RNode(h, id=node.id, name=op['name'], type=op['type'], asset=None, ttc=op.get('ttc'),
                   defense_status=_f(op.get('defense_status')),
                   existence_status=op.get('existence_status'), tags=op.get('tags'),
                   mitre=op.get('mitre'), extras=op.get('extras'))
        s.ref.add_node(rn)
        s.nmap[h] = node
        if nid is not None and nid in s.ref.removed_ids:
            self.count('probe:removed_node_id_reused')
        self._touch(s)
        self._invalidate_surfaces(s)
        self.check_all(where, only=op['g'])
        return 'ok'

    def do_readd_node(self, op):
        """add_node with a node that already is part of this graph: refused without any
        change, or carried out consistently (one entry, one id, lookups agree)."""
        s = self.slot(op['g'])
        h = op['n']
        if h not in s.nmap:
            raise Unresolvable()
        node, rn = s.nmap[h], s.ref.nodes[h]
        nid = op.get('node_id')
        where = f'add_node(<node {rn.id} of this graph>, node_id={nid})'
        o = call(s.g.add_node, node) if nid is None else call(s.g.add_node, node, node_id=nid)
        self.count('fault:node_offered_again')
        if o.raised:
            if node.id != rn.id:
                self.fail('C09.index', f'{where} was refused ({o.exc!r}) but the node now carries '
                                       f'id {node.id!r} instead of {rn.id}')
        else:
            if nid is not None and nid in s.ref.ids() and nid != rn.id:
                self.fail('C09.index', f'{where}: id in use was accepted')
            rn.id = node.id
            self._touch(s)
        self.check_all(where, only=op['g'])
        return 'refused' if o.raised else 'ok'

    def do_link(self, op):
        s = self.slot(op['g'])
        if op['p'] not in s.nmap or op['c'] not in s.nmap:
            raise Unresolvable()
        p, c = s.nmap[op['p']], s.nmap[op['c']]
        p.children.append(c)
        c.parents.append(p)
        s.ref.link(op['p'], op['c'])
        if op['p'] == op['c']:
            self.count('probe:self_loop')
        self._touch(s)
        self._invalidate_surfaces(s)
        self.check_all('link', only=op['g'])
        return 'ok'

    def do_remove_node(self, op):
        s = self.slot(op['g'])
        h = op['n']
        if h not in s.nmap or h not in s.ref.nodes:
            raise Unresolvable()
        node = s.nmap[h]
        ref = s.ref
        if ref.compromised_by(h):
            self.count('probe:compromised_node_removed')
        if any(h in a.entry for a in ref.attackers.values()):
            self.count('probe:entry_point_node_removed')
        if (h, h) in ref.edges:
            self.count('probe:self_loop_node_removed')
        where = f'remove_node({ref.nodes[h].full_name})'
        o = call(s.g.remove_node, node)
        if o.raised:
            self.fail('C09.must_not_raise', f'{where} raised {o.exc!r}')
        if s.kind == 'hand' and ref.nodes[h].asset is None:
            s.stale[h] = (node, ref.nodes[h].id, ref.nodes[h].full_name, ref.nodes[h])
        ref.remove_node(h)
        del s.nmap[h]
        self._touch(s)
        self._invalidate_surfaces(s)
        self.check_all(where, only=op['g'])
        return 'ok'

    def do_readd_removed_node(self, op):
        """add_node with a node that was removed from this graph before: it comes back as a
        node without links and without attackers (whatever it was connected to or compromised
        by when it was removed is history), under a free id."""
        s = self.slot(op['g'])
        if op['n'] not in s.stale or op['h'] in s.nmap or op['h'] in s.ref.nodes:
            raise Unresolvable()
        node, old_id, full, old_rn = s.stale[op['n']]
        nid = old_id if op.get('node_id') == 'old' and old_id not in s.ref.ids() else None
        where = f'add_node(<node {old_id} that was removed before>, node_id={nid})'
        o = call(s.g.add_node, node) if nid is None else call(s.g.add_node, node, node_id=nid)
        self.count('fault:removed_node_added_again')
        if o.raised:
            self.fail('C09.must_not_raise', f'{where} raised {o.exc!r}')
        if not isinstance(node.id, int) or node.id in s.ref.ids():
            self.fail('C09.index', f'{where}: node got id {node.id!r}, ids in use {sorted(s.ref.ids())}')
        rn = RNode(op['h'], id=node.id, name=old_rn.name, type=old_rn.type, asset=None,
                   ttc=old_rn.ttc, defense_status=old_rn.defense_status,
                   existence_status=old_rn.existence_status, tags=old_rn.tags,
                   mitre=old_rn.mitre, extras=old_rn.extras)
        rn.is_viable, rn.is_necessary = old_rn.is_viable, old_rn.is_necessary
        s.ref.add_node(rn)
        s.nmap[op['h']] = node
        del s.stale[op['n']]
        self._touch(s)
        self._invalidate_surfaces(s)
        self.check_all(where, only=op['g'])
        return 'ok'

    def do_remove_node_again(self, op):
        """remove_node with a node object that was removed from this graph before (a handle
        somebody kept).  Refused or not: the graph stays what it is - in particular the
        node that meanwhile took over the freed id keeps its lookup entries."""
        s = self.slot(op['g'])
        if op['n'] not in s.stale:
            raise Unresolvable()
        node, nid, full = s.stale[op['n']][:3]
        twin = [h for h in s.ref.order if s.ref.nodes[h].id == nid]
        if twin and s.ref.nodes[twin[0]].full_name == full:
            raise Unresolvable()        # value-equal to a live node: unspecified
        o = call(s.g.remove_node, node)
        self.count('fault:removed_node_removed_again')
        if twin:
            self.count('probe:stale_node_whose_id_was_taken_over')
        self.check_all(f'remove_node(<node {nid} that was removed before>) '
                       f'[{"refused: " + type(o.exc).__name__ if o.raised else "returned"}]',
                       only=op['g'])
        return 'refused' if o.raised else 'ok'

    # -- attackers
    def do_attach(self, op):
        s = self.slot(op['g'])
        if not s.ref.has_model:
            raise Unresolvable()
        before = len(s.g.attackers)
        o = call(s.g.attach_attackers)
        where = 'attach_attackers()'
        mref = self.mref
        if o.raised:
            self.fail('C11.attach', f'{where} raised {o.exc!r}')
        new = list(s.g.attackers)[before:]
        self.count('oracle:C11.attach')
        if len(new) != len(mref.attacker_order) and 'C11' not in self.armed:
            raise SetupRejected('desync:C11.attach')
        if len(new) != len(mref.attacker_order):
            self.fail('C11.attach', f'{where} added {len(new)} attackers, the model has '
                                    f'{len(mref.attacker_order)}')
        by_full = {}
        for h in s.ref.order:
            by_full.setdefault(s.ref.nodes[h].full_name, h)
        used_ids = {a.id for a in s.ref.attackers.values()}
        for real, mk in zip(new, mref.attacker_order):
            ma = mref.attackers[mk]
            k = self.new_ah()
            ra = RAttacker(k, real.name, real.id)    # how attached attackers are named is not promised
            if not isinstance(real.id, int) or real.id in used_ids:
                self.fail('C11.attach', f'{where}: attacker got id {real.id!r}, in use {sorted(used_ids)}')
            used_ids.add(real.id)
            for ah, steps in ma.eps:
                for st in steps:
                    fn = f'{mref.assets[ah].name}:{st}'
                    if fn in by_full and by_full[fn] not in ra.reached:
                        ra.reached.append(by_full[fn])
            ra.entry = list(ra.reached)
            rid = {id(n): h for h, n in s.nmap.items()}
            for label, real_list, exp_list in (('reached steps', real.reached_attack_steps, ra.reached),
                                               ('entry points', real.entry_points, ra.entry)):
                if 'C11' not in self.armed:
                    break           # the family the check is about reports first (check_all below)
                got = [rid.get(id(n)) for n in real_list]
                if None in got:
                    self.fail('C11.attach', f'{where}: {label} of attacker {ma.name!r} contain a '
                                            f'node that is not a node of this graph')
                if sorted(got) != sorted(exp_list):
                    self.fail('C11.attach', f'{where}: {label} of attacker {ma.name!r} are '
                                            f'{sorted(s.ref.nodes[h].full_name for h in got)}, the '
                                            f'model entry points name '
                                            f'{sorted(s.ref.nodes[h].full_name for h in exp_list)}')
            s.ref.add_attacker(ra)
            s.amap[k] = real
        if before:
            self.count('probe:attached_twice')
        if sum(1 for i in self.live_slots() if self.slots[i].ref.has_model) >= 2:
            self.count('probe:attach_with_several_graphs_on_model')
        self._touch(s)
        self.check_all(where, only=op['g'])
        return 'ok'

    def do_add_attacker(self, op):
        s = self.slot(op['g'])
        k = op['k']
        if k in s.amap or k in s.ref.attackers:
            raise Unresolvable()
        reached = [h for h in op.get('reached', []) if h in s.nmap]
        entry = [h for h in op.get('entry', []) if h in s.nmap]
        kid = op.get('id')
        used = {a.id for a in s.ref.attackers.values()}
        in_use = kid is not None and kid in used
        att = self.Attacker(name=op['name'], entry_points=[], reached_attack_steps=[])
        kw = {'entry_points': [s.ref.nodes[h].id for h in entry],
              'reached_attack_steps': [s.ref.nodes[h].id for h in reached]}
        if not reached and op.get('omit_empty', True):
            # the way a caller writes it: no reached steps -> argument left out
            del kw['reached_attack_steps']
            if not entry:
                del kw['entry_points']
        if kid is not None:
            kw['attacker_id'] = kid
        where = f'add_attacker({op["name"]!r}, id={kid}, reached={kw.get("reached_attack_steps", "(omitted)")})'
        if op.get('bad_then_retry') and not in_use:
            # a refused call (unknown node id after valid ones), then the same attacker
            # object is offered again with the corrected lists
            badkw = {k_: list(v) if isinstance(v, list) else v for k_, v in kw.items()}
            key = 'reached_attack_steps' if op['bad_then_retry'] == 'reached' else 'entry_points'
            badkw[key] = list(badkw.get(key, [])) + [987654]
            o = call(s.g.add_attacker, att, **badkw)
            self.count('fault:rejected_attacker_unknown_node')
            if not o.raised:
                self.fail('C09.attackers', f'{where} with an unknown node id was accepted')
            self.check_all(where + ' [unknown node id, refused]', only=op['g'])
        o = call(s.g.add_attacker, att, **kw)
        if in_use:
            self.count('fault:rejected_attacker_id_in_use')
            if not o.raised:
                self.fail('C09.index', f'{where}: attacker id in use was accepted')
            if att.id is not None:
                self.fail('C09.index', f'{where} was refused ({o.exc!r}) but the offered attacker '
                          f'now carries id {att.id!r}')
            self.check_all(where + ' [rejected]', only=op['g'])
            return 'rejected'
        if o.raised:
            self.fail('C09.must_not_raise', f'{where} raised {o.exc!r}')
        if kid is not None and att.id != kid:
            self.fail('C09.index', f'{where}: attacker got id {att.id}')
        if not isinstance(att.id, int) or att.id in used:
            self.fail('C09.index', f'{where}: attacker got id {att.id!r}, in use {sorted(used)}')
        ra = RAttacker(k, op['name'], att.id)
        ra.reached = list(dict.fromkeys(reached))
        ra.entry = list(entry)
        s.ref.add_attacker(ra)
        s.amap[k] = att
        if kid == 0 and used:
            self.count('probe:attacker_id0_not_first')
        if op['name'] in [a.name for a in s.ref.attackers.values() if a.h != k]:
            self.count('probe:same_name_attackers')
        self._touch(s)
        self.check_all(where, only=op['g'])
        return 'ok'

    def do_readd_attacker(self, op):
        """add_attacker with an attacker that already is part of this graph.  Whatever the
        call does (refuse, or move the attacker to the new id), afterwards the graph has
        every attacker once, under one id, and the lookups agree; a refused call changes
        nothing - not even the id the attacker carries."""
        s = self.slot(op['g'])
        k = op['k']
        if k not in s.amap or k not in s.ref.attackers:
            raise Unresolvable()
        att = s.amap[k]
        ra = s.ref.attackers[k]
        kid = op.get('id')
        used = {a.id for a in s.ref.attackers.values()}
        kw = {} if kid is None else {'attacker_id': kid}
        where = f'add_attacker(<attacker {ra.id} of this graph>, id={kid})'
        o = call(s.g.add_attacker, att, **kw)
        self.count('fault:attacker_offered_again')
        if o.raised:
            if not isinstance(o.exc, (ValueError, KeyError, LookupError)) \
                    and 'Exception' not in type(o.exc).__name__:
                self.fail('C09.must_not_raise', f'{where} raised {o.exc!r}')
            if att.id != ra.id:
                self.fail('C09.index', f'{where} was refused ({o.exc!r}) but the attacker now '
                          f'carries id {att.id!r} instead of {ra.id}')
        else:
            if kid is not None and kid in used and kid != ra.id:
                self.fail('C09.index', f'{where}: attacker id in use was accepted')
            ra.id = att.id
        self.check_all(where, only=op['g'])
        if op.get('then_remove'):
            o = call(s.g.remove_attacker, att)
            if o.raised:
                self.fail('C11.must_not_raise', f'{where}; remove_attacker raised {o.exc!r}')
            s.ref.remove_attacker(k)
            del s.amap[k]
            s.surface.pop(k, None)
            self._touch(s)
            self.check_all(where + '; remove_attacker', only=op['g'])
        return 'refused' if o.raised else 'ok'

    def do_add_attackers_late(self, op):
        """Two attackers act on nodes before they are registered with the graph
        (the way the repository's tests use Attacker), then both are added."""
        s = self.slot(op['g'])
        ks = op['ks']
        if any(k in s.amap or k in s.ref.attackers for k in ks):
            raise Unresolvable()
        nodes = [h for h in op['nodes'] if h in s.nmap]
        if not nodes:
            raise Unresolvable()
        second = [h for h in op.get('second_on', []) if h in nodes]
        atts = [self.Attacker(name=n, entry_points=[], reached_attack_steps=[]) for n in op['names']]
        where = f'two unregistered attackers compromise {len(nodes)}/{len(second)} nodes, then add_attacker x2'
        for h in nodes:
            o = call(atts[0].compromise, s.nmap[h])
            if o.raised:
                self.fail('C11.must_not_raise', f'{where}: compromise raised {o.exc!r}')
        for h in second:
            o = call(s.nmap[h].compromise, atts[1])
            if o.raised:
                self.fail('C11.must_not_raise', f'{where}: compromise raised {o.exc!r}')
        used = {a.id for a in s.ref.attackers.values()}
        for att, k, reached in ((atts[0], ks[0], nodes), (atts[1], ks[1], second)):
            if op.get('pass_reached'):
                # the steps it already holds are named again when it is registered
                o = call(s.g.add_attacker, att,
                         reached_attack_steps=[s.ref.nodes[h].id for h in reached])
            else:
                o = call(s.g.add_attacker, att)
            if o.raised:
                self.fail('C09.must_not_raise', f'{where}: add_attacker raised {o.exc!r}')
            if not isinstance(att.id, int) or att.id in used:
                self.fail('C09.index', f'{where}: attacker got id {att.id!r}')
            used.add(att.id)
            ra = RAttacker(k, att.name, att.id)
            ra.reached = list(reached)
            s.ref.add_attacker(ra)
            s.amap[k] = att
        self.count('probe:unregistered_attackers_compromised_first')
        self._touch(s)
        self.check_all(where, only=op['g'])
        return 'ok'

    def do_remove_attacker(self, op):
        s = self.slot(op['g'])
        k = op['k']
        if k not in s.amap:
            raise Unresolvable()
        att = s.amap[k]
        n_reached = len(s.ref.attackers[k].reached)
        o = call(s.g.remove_attacker, att)
        where = f'remove_attacker({s.ref.attackers[k].name!r}, reached {n_reached} nodes)'
        if o.raised:
            self.fail('C09.must_not_raise', f'{where} raised {o.exc!r}')
        if 'C11' in self.armed:
            # (for the other checks the same condition is reported by their own family:
            # C09.attackers "every attacker referenced by a node is in the graph")
            self.count('oracle:C11.removed')
            for n in s.g.nodes:
                if any(x is att for x in n.compromised_by):
                    self.fail('C11.removed', f'{where}: node {n.full_name} is still compromised by '
                                             f'the removed attacker')
        s.ref.remove_attacker(k)
        del s.amap[k]
        s.surface.pop(k, None)
        if n_reached >= 2:
            self.count('probe:attacker_with_several_reached_removed')
        self._touch(s)
        self.check_all(where, only=op['g'])
        return 'ok'

    def _comp(self, op, undo):
        s = self.slot(op['g'])
        if op['k'] not in s.amap or op['n'] not in s.nmap:
            raise Unresolvable()
        att, node = s.amap[op['k']], s.nmap[op['n']]
        ref = s.ref
        was = op['n'] in ref.attackers[op['k']].reached
        name = 'undo_compromise' if undo else 'compromise'
        if op.get('side') == 'node':
            o = call(getattr(node, name), att)
        else:
            o = call(getattr(att, name), node)
        where = f'{name}({ref.attackers[op["k"]].name!r}, {ref.nodes[op["n"]].full_name}) via {op.get("side")}'
        if o.raised:
            self.fail('C11.must_not_raise', f'{where} raised {o.exc!r}')
        if undo:
            ref.undo(op['k'], op['n'])
            self._invalidate_surfaces(s)
            if not was:
                self.count('probe:undo_of_not_compromised')
        else:
            if not was and any(op['n'] in ref.attackers[k2].reached for k2 in
                               ref.attacker_order[ref.attacker_order.index(op['k']) + 1:]):
                self.count('probe:compromised_step_held_by_later_attacker')
                self._copy_next = op['g']           # (C14) worth copying in exactly this state
            ref.compromise(op['k'], op['n'])
            s.surface.pop(op['k'], None)    # not maintained through this path
            if was:
                self.count('probe:compromise_twice')
        self.count('oracle:C11.idempotent')
        self._touch(s)
        self.check_all(where, only=op['g'])
        return 'ok'

    def do_compromise(self, op):
        return self._comp(op, False)

    def do_undo(self, op):
        return self._comp(op, True)

    # -- analysis / labels / prune
    def do_analyse(self, op):
        s = self.slot(op['g'])
        o = call(self.apriori.calculate_viability_and_necessity, s.g)
        if o.raised:
            self.fail('C09.must_not_raise', f'calculate_viability_and_necessity raised {o.exc!r}')
        self.adopt_labels(s)
        self._touch(s)
        self._invalidate_surfaces(s)
        self.check_all('calculate_viability_and_necessity', only=op['g'])
        return 'ok'

    def do_relabel(self, op):
        s = self.slot(op['g'])
        done = 0
        for h, (v, n) in zip(op['nodes'], op['labels']):
            if h in s.nmap:
                if op.get('as_int'):
                    s.nmap[h].is_viable, s.nmap[h].is_necessary = int(v), int(n)
                    self.count('probe:labels_written_as_0_or_1')
                else:
                    s.nmap[h].is_viable, s.nmap[h].is_necessary = v, n
                s.ref.nodes[h].is_viable, s.ref.nodes[h].is_necessary = v, n
                done += 1
        if not done:
            raise Unresolvable()
        self._touch(s)
        self._invalidate_surfaces(s)
        return 'ok'

    def do_prune(self, op):
        s = self.slot(op['g'])
        ref = s.ref
        prunable = [h for h in ref.order if ref.nodes[h].type in ('or', 'and')
                    and not (ref.nodes[h].is_viable and ref.nodes[h].is_necessary)]
        # probes: the shapes pruning trips over
        idx = [ref.order.index(h) for h in prunable]
        if any(b - a == 1 for a, b in zip(idx, idx[1:])):
            self.count('probe:adjacent_prunable_nodes')
        if any((p, c) in ref.edges for p in prunable for c in prunable):
            self.count('probe:linked_prunable_nodes')
        if any(ref.compromised_by(h) for h in prunable):
            self.count('probe:compromised_prunable_node')
        if len(prunable) >= 2:
            self.count('probe:prune_with_2plus')
        o = call(self.apriori.prune_unviable_and_unnecessary_nodes, s.g)
        where = f'prune_unviable_and_unnecessary_nodes ({len(prunable)} prunable of {len(ref.order)})'
        if o.raised:
            self.fail('C13.exact', f'{where} raised {o.exc!r}')
        for h in prunable:
            ref.remove_node(h)
            s.nmap.pop(h, None)
        self.count('oracle:C13.exact')
        left = [n for n in s.g.nodes if n.type in ('or', 'and')
                and not (n.is_viable and n.is_necessary)]
        if left:
            self.fail('C13.exact', f'{where}: still in the graph: '
                                   f'{[n.full_name for n in left][:6]}')
        got_ids = sorted(n.id for n in s.g.nodes)
        exp_ids = sorted(ref.nodes[h].id for h in ref.order)
        if got_ids != exp_ids:
            self.fail('C13.exact', f'{where}: remaining node ids {got_ids}, expected {exp_ids}')
        self._touch(s)
        self._invalidate_surfaces(s)
        # the remaining graph: structure (the C09 invariants are part of C13 right
        # after a prune) + content
        if self.prop == 'C13':
            self._tmp_armed = {'C09', 'C11'}
        try:
            self.check_structure(s, where)
        finally:
            self._tmp_armed = set()
        self.check_ref(s, where, 'C13.exact')
        self.check_all(where, only=op['g'])
        return 'ok'

    # -- copy
    def do_copy(self, op):
        s = self.slot(op['g'])
        if len(self.live_slots()) >= 4:
            raise Unresolvable()
        o = call(copy.deepcopy, s.g)
        if o.raised and s.uncopyable:
            # a value that cannot be copied: refusing the whole copy is fine
            self.count('probe:copy_refused_uncopyable_value')
            return 'refused'
        if o.raised:
            self.fail('C14.equal', f'copy.deepcopy(graph) raised {o.exc!r}')
        g2 = o.value
        apos_ = {id(a): i for i, a in enumerate(s.g.attackers)}
        if any([apos_.get(id(a), -1) for a in n.compromised_by]
               != sorted(apos_.get(id(a), -1) for a in n.compromised_by) for n in s.g.nodes):
            self.count('probe:copied_with_compromise_order_unlike_attacker_order')
        s2 = Slot(g2, s.ref.clone(), s.kind)
        s2.copied_from = op['g']
        s2.uncopyable = s.uncopyable
        # handles of the copy: same local handles, objects by position
        if len(g2.nodes) != len(s.g.nodes) or len(g2.attackers) != len(s.g.attackers):
            self.fail('C14.equal', f'copy has {len(g2.nodes)} nodes / {len(g2.attackers)} attackers, '
                                   f'original {len(s.g.nodes)} / {len(s.g.attackers)}')
        pos = {id(n): i for i, n in enumerate(s.g.nodes)}
        s2.nmap = {h: g2.nodes[pos[id(n)]] for h, n in s.nmap.items()}
        apos = {id(a): i for i, a in enumerate(s.g.attackers)}
        s2.amap = {k: g2.attackers[apos[id(a)]] for k, a in s.amap.items()}
        self.slots.append(s2)
        # all internal references of the copy stay inside the copy, its lookups answer
        # with its own nodes, both sides of the compromise relation were copied
        if self.prop == 'C14':
            self._tmp_armed = {'C09', 'C11'}
        try:
            self.check_structure(s2, 'deepcopy [the copy]')
        except Violation as v:
            if self.prop == 'C14':
                raise Violation('C14.closed', v.message) from None
            raise
        finally:
            self._tmp_armed = set()
        self.count('oracle:C14.equal')
        a, b = call(s.g._to_dict), call(g2._to_dict)
        if a.raised or b.raised or canon(a.value) != canon(b.value):
            self.fail('C14.equal', 'serialized content of the copy differs from the original\n'
                      + ('' if a.raised or b.raised else world_m._obs_diff(a.value, b.value)))
        if (g2.next_node_id, g2.next_attacker_id) != (s.g.next_node_id, s.g.next_attacker_id):
            self.fail('C14.equal', f'counters differ: copy ({g2.next_node_id}, {g2.next_attacker_id}) '
                                   f'original ({s.g.next_node_id}, {s.g.next_attacker_id})')
        if g2.model is not s.g.model or g2.lang_graph is not s.g.lang_graph:
            self.fail('C14.equal', 'the copy does not share the model / language graph')
        # disjointness
        self.count('oracle:C14.disjoint')
        orig_objs = {}
        def containers(v, label, out):
            """Every list / dict reachable inside a node-owned value."""
            if isinstance(v, dict):
                out.append((v, label))
                for kk, vv in v.items():
                    containers(vv, f'{label}[{kk!r}]', out)
            elif isinstance(v, list):
                out.append((v, label))
                if not v or not isinstance(v[0], self.AttackGraphNode | self.Attacker):
                    for i_, vv in enumerate(v):
                        containers(vv, f'{label}[{i_}]', out)
            return out
        for n in s.g.nodes:
            orig_objs[id(n)] = f'node {n.full_name}'
            for attr in ('children', 'parents', 'compromised_by', 'tags', 'extras', 'ttc', 'attributes'):
                for v, label in containers(getattr(n, attr), attr, []):
                    orig_objs[id(v)] = f'{label} of {n.full_name}'
        for a_ in s.g.attackers:
            orig_objs[id(a_)] = f'attacker {a_.name}'
            orig_objs[id(a_.entry_points)] = f'entry_points of {a_.name}'
            orig_objs[id(a_.reached_attack_steps)] = f'reached_attack_steps of {a_.name}'
        for n in g2.nodes:
            objs = [n]
            for attr in ('children', 'parents', 'compromised_by', 'tags', 'extras', 'ttc', 'attributes'):
                objs += [v for v, _ in containers(getattr(n, attr), attr, [])]
            for x in objs:
                if id(x) in orig_objs:
                    self.fail('C14.disjoint', f'the copy shares {orig_objs[id(x)]} with the original')
        for a_ in g2.attackers:
            for x in (a_, a_.entry_points, a_.reached_attack_steps):
                if id(x) in orig_objs:
                    self.fail('C14.disjoint', f'the copy shares {orig_objs[id(x)]} with the original')
        self.count('oracle:C14.closed')
        self._touch(s2)
        s.mutated_since_copy = False
        s2.mutated_since_copy = False
        self.check_ref(s2, 'deepcopy [the copy]', 'C14.equal')
        if op.get('probe_ids') and self.prop == 'C14':
            # the same thing done to both right away has the same effect: a node added to the
            # original and one added to the copy get the same id
            a_, b_ = (self.AttackGraphNode(type='or', name=f'probe{len(self.slots)}') for _ in range(2))
            ra_, rb_ = call(s.g.add_node, a_), call(g2.add_node, b_)
            self.count('oracle:C14.equal')
            if ra_.raised or rb_.raised or a_.id != b_.id:
                self.fail('C14.equal', f'a node added to the original got id '
                          f'{"(raised)" if ra_.raised else a_.id}, the same node added to the fresh copy '
                          f'{"(raised)" if rb_.raised else b_.id}')
            for slot_, node_, hh in ((s, a_, op['probe_ids'][0]), (s2, b_, op['probe_ids'][1])):
                slot_.ref.add_node(RNode(hh, id=node_.id, name=node_.name, type='or', asset=None, ttc=None,
                                         defense_status=None, existence_status=None, tags=[],
                                         mitre=None, extras={}))
                slot_.nmap[hh] = node_
            self.count('probe:same_node_added_to_original_and_copy')
        self.check_all('deepcopy', only=len(self.slots) - 1)
        self.count('probe:copy_of_copy') if s.copied_from is not None else None
        return 'ok'

    # -- save / load as a restart (C10)
    def do_saveload(self, op):
        import maltoolbox.file_utils as fu
        s = self.slot(op['g'])
        if s.uncopyable:
            raise Unresolvable()
        fmt = op['fmt']
        path = self.fresh_path('.' + fmt)
        fault = op.get('fault')
        where = f'save_to_file(*.{fmt}) + load_from_file(model={"yes" if op.get("with_model") else "no"})'
        plan = None
        if fault and fault['phase'] == 'save':
            plan = faults.FaultPlan(fault['kind'], fault['at'], fault.get('after', 0), 'w')
        with faults.patched_open([fu], plan):
            o = call(s.g.save_to_file, path)
        if plan is not None and plan.fired:
            self.count(f'fault:storage_{fault["kind"]}_{fault["at"]}')
            if not o.raised:
                self.fail('C10.no_silent_failure', f'save_to_file returned normally although '
                                                   f'{fault["kind"]} was raised at {fault["at"]}')
            self.check_all(where + ' [storage fault]', only=op['g'])
            return 'save_failed'
        if o.raised:
            self.fail('C10.save', f'save_to_file(*.{fmt}) raised {o.exc!r}')
        plan = None
        if fault and fault['phase'] == 'load':
            plan = faults.FaultPlan('EIO', fault['at'], 0, 'r')
        model = self.model if op.get('with_model') and s.ref.has_model else None
        with faults.patched_open([fu], plan):
            o = call(self.AttackGraph.load_from_file, path, model) if model is not None \
                else call(self.AttackGraph.load_from_file, path)
        if plan is not None and plan.fired:
            self.count(f'fault:storage_EIO_{fault["at"]}_load')
            if not o.raised:
                self.fail('C10.no_silent_failure', 'load_from_file returned a graph although EIO '
                                                   f'was raised at {fault["at"]}')
            o = call(self.AttackGraph.load_from_file, path, model) if model is not None \
                else call(self.AttackGraph.load_from_file, path)
        if o.raised:
            self.fail('C10.load', f'load_from_file raised {o.exc!r} on a file written by save_to_file')
        g2 = o.value
        ref = s.ref
        s.file_names = sorted(n.full_name for n in ref.nodes.values())
        if model is None:
            for n in ref.nodes.values():
                n.asset = None
            ref.has_model = False
        if len(set(ref.edges)) != len(ref.edges):
            # "the same edges": an edge listed twice is one edge
            ref.edges = list(dict.fromkeys(ref.edges))
            self.count('probe:saved_with_duplicate_edges')
        names = [a.name for a in ref.attackers.values()]
        if len(set(names)) != len(names):
            self.count('probe:same_name_attackers_saved')
        if ref.attacker_order:
            self.count('probe:saved_with_attackers')
        if any(not (n.is_viable and n.is_necessary) for n in ref.nodes.values()):
            self.count('probe:saved_with_false_labels')
        if any(n.tags for n in ref.nodes.values()):
            self.count('probe:saved_with_tags')
        ids = sorted(ref.ids())
        if ids and ids != list(range(ids[0], ids[0] + len(ids))):
            self.count('probe:saved_with_id_gaps')
        self.count(f'probe:saveload_{fmt}_{"model" if model is not None else "nomodel"}')
        # typed comparison
        self.count('oracle:C10.nodes')
        for n in g2.nodes:
            if n.tags is not None and not (isinstance(n.tags, list)
                                           and all(isinstance(t, str) for t in n.tags)):
                self.fail('C10.nodes', f'{where}: tags of {n.full_name} came back as '
                                       f'{type(n.tags).__name__} {n.tags!r}, not a list of strings')
            for attr, typ in (('is_viable', bool), ('is_necessary', bool)):
                if not isinstance(getattr(n, attr), typ):
                    self.fail('C10.nodes', f'{where}: {attr} of {n.full_name} is '
                                           f'{getattr(n, attr)!r}')
            if n.defense_status is not None and not isinstance(n.defense_status, float):
                self.fail('C10.nodes', f'{where}: defense_status of {n.full_name} is '
                                       f'{n.defense_status!r}')
            if n.existence_status is not None and not isinstance(n.existence_status, bool):
                self.fail('C10.nodes', f'{where}: existence_status of {n.full_name} is '
                                       f'{n.existence_status!r}')
            if not isinstance(n.id, int):
                self.fail('C10.nodes', f'{where}: id of {n.full_name} is {n.id!r}')
        o = call(observe_graph, g2)
        if o.raised:
            self.fail('C10.nodes', f'{where}: observing the loaded graph raised {o.exc!r}')
        got = json.loads(canon(o.value))
        exp = json.loads(canon(ref.observe()))
        if got['nodes'] != exp['nodes']:
            ge = [(n['id'], n['children'], n['parents']) for n in got['nodes']]
            ee = [(n['id'], n['children'], n['parents']) for n in exp['nodes']]
            gc = [{k: v for k, v in n.items() if k not in ('children', 'parents', 'compromised_by')}
                  for n in got['nodes']]
            ec = [{k: v for k, v in n.items() if k not in ('children', 'parents', 'compromised_by')}
                  for n in exp['nodes']]
            cl = 'C10.nodes' if gc != ec else ('C10.edges' if ge != ee else 'C10.attackers')
            self.fail(cl, f'{where}: loaded graph differs from the saved one\n'
                      + world_m._obs_diff({'nodes': exp['nodes']}, {'nodes': got['nodes']}))
        self.count('oracle:C10.attackers')
        if got['attackers'] != exp['attackers']:
            self.fail('C10.attackers', f'{where}: attackers differ\n'
                      + world_m._obs_diff({'a': exp['attackers']}, {'a': got['attackers']}))
        if model is not None:
            self.count('oracle:C10.bound')
            for n in g2.nodes:
                want = next((a for a in model.assets if str(a.name) == ref.nodes[
                    next(h for h in ref.order if ref.nodes[h].id == n.id)].asset), None)
                if ref.nodes[next(h for h in ref.order if ref.nodes[h].id == n.id)].asset is not None \
                        and n.asset is not want:
                    self.fail('C10.bound', f'{where}: node {n.full_name} is not bound to the '
                                           f'model asset of that name')
        self.rebind_by_id(s, g2)
        s.kind = 'loaded' if s.kind != 'hand' else 'hand'
        self._touch(s)
        self.check_all(where, only=op['g'])
        if not fault:
            self.old_files.append((path, fmt, model is not None, ref.clone(), op['g']))
            self._after_load = [op['g'], len(self.old_files) - 1, 0]     # (C10) edit, then load again
        return 'ok'

    def do_reload_old(self, op):
        """A graph file written earlier in the run is loaded once more, after the graph that
        came out of it has been edited in place: it still loads to what it held when it was
        written (nothing cached, nothing shared with the first load)."""
        if op['i'] >= len(self.old_files) or len(self.live_slots()) >= 4:
            raise Unresolvable()
        path, fmt, with_model, ref0, _ = self.old_files[op['i']]
        if not os.path.exists(path):
            raise Unresolvable()
        o = call(self.AttackGraph.load_from_file, path, self.model) if with_model \
            else call(self.AttackGraph.load_from_file, path)
        where = f'second load of a *.{fmt} file written earlier in the run'
        if o.raised:
            self.fail('C10.load', f'{where} raised {o.exc!r}')
        g2 = o.value
        s2 = Slot(g2, ref0.clone(), 'loaded')
        by_id = {n.id: n for n in g2.nodes}
        s2.nmap = {h: by_id[ref0.nodes[h].id] for h in ref0.order if ref0.nodes[h].id in by_id}
        aby = {a.id: a for a in g2.attackers}
        s2.amap = {k: aby[ref0.attackers[k].id] for k in ref0.attacker_order if ref0.attackers[k].id in aby}
        self.slots.append(s2)
        self.count('probe:graph_file_loaded_a_second_time')
        self.check_ref(s2, where, 'C10.nodes')
        self.check_all(where, only=len(self.slots) - 1)
        return 'ok'

    # -- regenerate (C09)
    def do_regenerate(self, op):
        s = self.slot(op['g'])
        if s.kind != 'generated':
            raise Unresolvable()
        had = (len(s.ref.order), len(s.ref.attacker_order), len(s.ref.removed_ids))
        o = call(s.g.regenerate_graph)
        if o.raised:
            raise SetupRejected('regenerate:' + o.exc_name())
        f = call(self.AttackGraph, self.lg, self.model)
        if f.raised:
            raise SetupRejected('generate:' + f.exc_name())
        fresh = f.value
        self.count('oracle:C09.regenerate')
        a, b = call(s.g._to_dict), call(fresh._to_dict)
        where = 'regenerate_graph()'
        if a.raised or b.raised or canon(a.value) != canon(b.value):
            self.fail('C09.regenerate', f'{where}: serialized graph differs from a freshly generated one\n'
                      + ('' if a.raised or b.raised else world_m._obs_diff(b.value, a.value)))
        if (s.g.next_node_id, s.g.next_attacker_id) != (fresh.next_node_id, fresh.next_attacker_id):
            self.fail('C09.regenerate', f'{where}: counters ({s.g.next_node_id}, {s.g.next_attacker_id}) '
                                        f'differ from a fresh graph\'s ({fresh.next_node_id}, '
                                        f'{fresh.next_attacker_id})')
        old_ref = s.ref
        self.adopt(s)
        # lookups of keys that existed before must now answer like a fresh graph
        for rid in sorted(old_ref.ids() | set(old_ref.removed_ids))[:80]:
            x, y = s.g.get_node_by_id(rid), fresh.get_node_by_id(rid)
            if (x is None) != (y is None) or (x is not None and x.full_name != y.full_name):
                self.fail('C09.regenerate', f'{where}: get_node_by_id({rid}) answers differently '
                                            f'from a freshly generated graph')
            if x is not None and not any(x is n for n in s.g.nodes):
                self.fail('C09.regenerate', f'{where}: get_node_by_id({rid}) returns a stale node')
        for n in list(old_ref.nodes.values())[:80]:
            x = s.g.get_node_by_full_name(n.full_name)
            y = fresh.get_node_by_full_name(n.full_name)
            if (x is None) != (y is None):
                self.fail('C09.regenerate', f'{where}: get_node_by_full_name({n.full_name!r}) '
                                            f'answers differently from a freshly generated graph')
            if x is not None and not any(x is m for m in s.g.nodes):
                self.fail('C09.regenerate', f'{where}: get_node_by_full_name({n.full_name!r}) '
                                            f'returns a stale node')
        for a_ in old_ref.attackers.values():
            if s.g.get_attacker_by_id(a_.id) is not None:
                self.fail('C09.regenerate', f'{where}: get_attacker_by_id({a_.id}) still returns '
                                            f'an attacker of the old graph')
        if had[1]:
            self.count('probe:regenerate_with_attackers')
        if had[2]:
            self.count('probe:regenerate_after_removals')
        # regenerating one graph re-binds asset.attack_step_nodes of the shared model;
        # other graphs on the model keep their own nodes
        self._touch(s)
        self.check_all(where, only=op['g'])
        return 'ok'

    def do_model_edit(self, op):
        done = 0
        for mop in op.get('mops') or [op['mop']]:
            try:
                self.mw.apply(mop)
                done += 1
            except Unresolvable:
                continue
        if not done:
            raise Unresolvable()
        self.count('probe:model_edited_between_generations')
        if op.get('kind') == 'replace':
            self.count('probe:model_asset_replaced_same_name')
        self.state_changes += 1
        return 'ok'

    # -- queries (C12)
    def _snapshot(self, slot):
        """For the 'queries change nothing' clauses: the observation used everywhere else
        (lists as multisets) plus an exact one - list orders included, since they show
        in to_dict() and in saved files."""
        g = slot.g
        exact = ([(n.id, [c.id for c in n.children], [p_.id for p_ in n.parents],
                   [a.id for a in n.compromised_by],
                   list(n.tags) if isinstance(n.tags, list) else repr(n.tags))
                  for n in g.nodes],
                 [(a.id, [n.id for n in a.reached_attack_steps], [n.id for n in a.entry_points])
                  for a in g.attackers],
                 g.next_node_id, g.next_attacker_id)
        return canon(observe_graph(g)) + repr(exact)

    def do_surface_query(self, op):
        s = self.slot(op['g'])
        if op['k'] not in s.amap:
            raise Unresolvable()
        att = s.amap[op['k']]
        ref = s.ref
        before = self._snapshot(s)
        self.count('oracle:C12.traversable')
        rid = {id(n): h for h, n in s.nmap.items()}
        for h, n in s.nmap.items():
            r = call(self.query.is_node_traversable_by_attacker, n, att)
            exp = ref.traversable(h, op['k'])
            if r.raised or r.value is not exp:
                self.fail('C12.traversable', f'is_node_traversable_by_attacker({ref.nodes[h].full_name}, '
                                             f'{ref.attackers[op["k"]].name!r}) = '
                                             f'{r.exc if r.raised else r.value!r}, definition gives {exp}')
        self.count('oracle:C12.surface')
        r = call(self.query.get_attack_surface, att)
        if r.raised:
            self.fail('C12.surface', f'get_attack_surface raised {r.exc!r}')
        got = [rid.get(id(n)) for n in r.value]
        exp = ref.attack_surface(op['k'])
        if None in got or sorted(got) != sorted(exp):
            self.fail('C12.surface', f'get_attack_surface: got {sorted(map(str, got))}, definition '
                                     f'gives {sorted(exp)}')
        if len({id(n) for n in r.value}) != len(r.value):
            self.fail('C12.surface', 'get_attack_surface returned a node twice')
        s.surface[op['k']] = list(r.value)
        if self._snapshot(s) != before:
            self.fail('C12.readonly', 'a surface query changed the graph')
        self.count('oracle:C12.readonly')
        return 'ok'

    def do_surface_update(self, op):
        """Compromise a batch, then extend the maintained surface incrementally
        and compare with a recomputation."""
        s = self.slot(op['g'])
        k = op['k']
        if k not in s.amap:
            raise Unresolvable()
        att = s.amap[k]
        ref = s.ref
        batch = [h for h in op['batch'] if h in s.nmap]
        if not batch:
            raise Unresolvable()
        if k not in s.surface:
            r = call(self.query.get_attack_surface, att)
            if r.raised:
                self.fail('C12.surface', f'get_attack_surface raised {r.exc!r}')
            s.surface[k] = list(r.value)
        new_nodes = []
        for h in batch:
            if h not in ref.attackers[k].reached:
                o = call(att.compromise, s.nmap[h])
                if o.raised:
                    self.fail('C11.must_not_raise', f'compromise raised {o.exc!r}')
                ref.compromise(k, h)
                new_nodes.append(s.nmap[h])
        # other attackers' maintained surfaces are unaffected by this attacker's compromises
        before = self._snapshot(s)
        r = call(self.query.update_attack_surface_add_nodes, att, s.surface[k], new_nodes)
        if r.raised:
            self.fail('C12.incremental', f'update_attack_surface_add_nodes raised {r.exc!r}')
        s.surface[k] = list(r.value)
        rc = call(self.query.get_attack_surface, att)
        if rc.raised:
            self.fail('C12.surface', f'get_attack_surface raised {rc.exc!r}')
        self.count('oracle:C12.incremental')
        a_ids = sorted(n.id for n in s.surface[k])
        b_ids = sorted(n.id for n in rc.value)
        if sorted(set(a_ids)) != sorted(set(b_ids)):
            self.fail('C12.incremental', f'incrementally extended surface {a_ids} differs from the '
                                         f'recomputed one {b_ids} after compromising '
                                         f'{[ref.nodes[h].full_name for h in batch]}')
        if len(set(a_ids)) != len(a_ids):
            self.fail('C12.incremental', f'incrementally extended surface lists a node twice: {a_ids}')
        rid = {id(n): h for h, n in s.nmap.items()}
        exp = ref.attack_surface(k)
        if sorted(rid.get(id(n), '?') for n in rc.value) != sorted(exp):
            self.fail('C12.surface', f'get_attack_surface: got '
                                     f'{sorted(rid.get(id(n), "?") for n in rc.value)}, '
                                     f'definition gives {sorted(exp)}')
        if self._snapshot(s) != before:
            self.fail('C12.readonly', 'a surface query changed the graph')
        self.count('probe:surface_batches')
        self._touch(s)
        self.check_all('compromise batch + surface update', only=op['g'])
        return 'ok'

    def do_defense_query(self, op):
        s = self.slot(op['g'])
        ref = s.ref
        before = self._snapshot(s)
        self.count('oracle:C12.defenses')
        rid = {id(n): h for h, n in s.nmap.items()}
        for fn, pred in ((self.query.get_defense_surface,
                          lambda n: n.type == 'defense' and 'suppress' not in n.tags
                          and n.defense_status != 1.0),
                         (self.query.get_enabled_defenses,
                          lambda n: n.type == 'defense' and 'suppress' not in n.tags
                          and n.defense_status == 1.0)):
            r = call(fn, s.g)
            if r.raised:
                self.fail('C12.defenses', f'{fn.__name__} raised {r.exc!r}')
            got = sorted(rid.get(id(n), '?') for n in r.value)
            exp = sorted(h for h in ref.order if pred(ref.nodes[h]))
            if got != exp:
                self.fail('C12.defenses', f'{fn.__name__}: got {got}, definition gives {exp}')
        if self._snapshot(s) != before:
            self.fail('C12.readonly', 'a defense query changed the graph')
        return 'ok'

    # -- in-place edits of per-node data (C14 independence, C10 content)
    def do_edit_inplace(self, op):
        s = self.slot(op['g'])
        h = op['n']
        if h not in s.nmap:
            raise Unresolvable()
        node, rn = s.nmap[h], s.ref.nodes[h]
        what, val = op['what'], op['value']
        if what == 'tags':
            if not isinstance(node.tags, list):
                raise SetupRejected('desync:C10.nodes')
            node.tags.append(val)
            rn.tags.append(val)
        elif what == 'extras':
            node.extras[val] = {'v': 1}
            rn.extras[val] = {'v': 1}
        elif what == 'new_tags':
            node.tags = list(node.tags or []) + [val]
            rn.tags = list(rn.tags or []) + [val]
            self.count('probe:tags_or_ttc_replaced_by_a_new_object')
        elif what == 'new_ttc':
            node.ttc = {'type': 'function', 'name': 'Exponential', 'arguments': [0.5], 'note': val}
            rn.ttc = {'type': 'function', 'name': 'Exponential', 'arguments': [0.5], 'note': val}
            self.count('probe:tags_or_ttc_replaced_by_a_new_object')
        elif what == 'defense':
            if rn.type != 'defense':
                raise Unresolvable()
            node.defense_status = val
            rn.defense_status = val
            self.count('probe:defense_switched_in_graph')
            if val not in (0, 1, 0.5):
                self.count('probe:defense_status_next_to_bound')
        elif what == 'uncopyable':
            import threading
            node.extras['nested'] = {'list': [1, 2]}
            node.extras['handle'] = threading.Lock()    # cannot be deep-copied, pickled or saved
            s.uncopyable = True
            self.count('probe:uncopyable_extras_value')
            self._touch(s)
            return 'ok'         # not comparable / serialisable: no reference comparison on this graph
        else:
            if not isinstance(node.ttc, dict):
                raise Unresolvable()
            node.ttc.setdefault('arguments', []).append(9.5)
            node.ttc['edited'] = val
            rn.ttc.setdefault('arguments', []).append(9.5)
            rn.ttc['edited'] = val
            self.count('probe:ttc_edited_in_place')
        self._touch(s)
        self._invalidate_surfaces(s)
        self.check_all(f'in-place edit of {what} of {rn.full_name}', only=op['g'])
        return 'ok'
