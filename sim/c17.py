"""C17: see world_s.py"""
from .world_s import SourceWorld as World, RULE_C17 as RULE, REAL, STUB, ASSUMPTIONS, new_run_c17 as new_run  # noqa: F401
