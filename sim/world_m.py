"""World M: instance models under histories of edits, restarts and faults.

Serves C05 (coherence under any history), C06 (only what the language allows),
C07 (save / load as a restart, foreign-written files, storage faults).
The world always runs the full comparison against the reference model; which
clauses are *armed* (may report a violation) depends on cfg['prop'].  A mismatch
in an unarmed clause ends the run quietly (`desync`), because from then on the
reference cannot judge anything - the check that owns the clause reports it.
"""
from __future__ import annotations

import copy
import errno
import json
import os

from .engine import Violation, SetupRejected, Unresolvable
from .lang import Lang, canon, gen_spec, small_fixed_specs, corpus
from .refmodel import RefModel, RefAsset, RefAssoc, RefAttacker
from .world import BaseWorld, call, weighted, digest
from . import findings, faults, legacy

RULE = ('one run = one language (generator / hand-written corpus / coreLang), 1-2 models on one '
        'class factory and a seeded history of 10-60 public-API calls with valid, boundary and '
        'deliberately invalid arguments (rejected operations are the fault kind), for C07 also '
        'restarts (save, drop every object, load, continue), foreign-written files and storage '
        'errors. After every step the complete observation (assets, associations, back-references, '
        'neighbours per field, attackers, lookups, _to_dict) is compared with the reference model. '
        'non-trivial = >=5 state-changing steps and >=1 step of the key kind (C05: removal followed '
        'by an addition; C06: a rejected invalid construction; C07: a restart); distinct = distinct '
        'event-log digest')
REAL = ['maltoolbox.model.Model', 'maltoolbox.model.AttackerAttachment', 'maltoolbox.file_utils',
        'maltoolbox.language.LanguageGraph', 'maltoolbox.language.LanguageClassesFactory',
        'python_jsonschema_objects', 'PyYAML', 'json', 'CPython file objects on tmpfs']
STUB = ['fault shim around maltoolbox.file_utils.open (ENOSPC / EIO on write, close, read)']
ASSUMPTIONS = [
    'reference model sim/refmodel.py is the abstract model the property speaks of; reserved ids and names are by definition those of live assets',
    'removing the last member of a side removes the association (documented behaviour of remove_asset_from_association)',
    'neighbour lists, member lists and entry points are compared as sets / multisets; exceptions by occurrence only',
    'operations on objects that were never added, on removed objects that are value-equal to a live one, empty association sides and cross-model objects are unspecified and not generated - '
    'except two: remove_association(<removed object whose twin is live>) must be refused without change or remove the twin as a whole, '
    'and add_asset(<removed object>) is an ordinary add (new id, unique name)',
]

NAMES_PLAIN = ['web', 'db', 'fw', 'lan', 'alice', 'key1', 'dmz', 'api']
NAMES_ODD = ['yes', 'null', '123', '0', 'a: b', '- x', 'éü', '"q"', "it's", '#c', ' lead',
             'x:1', 'Host:0', 'Host:1', 'träd ☃', '{}', '[a]', 'a,b', '~', 'on', '1e3',
             '0x10', 'multi\nline', 'tab\there', '', 'Mainframe\u0085LPAR', 'line\u2028sep',
             'nb\u00a0sp', 'bom\ufeffx', 'lock\U0001f512', '\U00020000x']
EXTRAS = [{'color': 'red'}, {'position': {'x': 1, 'y': -2.5}}, {'tags': ['a', 'b'], 'n': 0},
          {'note': 'yes'}, {'k': None}, {'1': 'one'}, {'007': 'bond', 'years': {'2024': 1, '-1': 2}},
          {'p': 1e-05, 'rate': 2e-07, 'big': 1e+16, 'emoji': 'ok \U0001f512'}]


def _clauses_for(prop):
    if prop == 'C05':
        return {'C05'}
    if prop == 'C06':
        return {'C06'}
    if prop == 'C07':
        return {'C07'}
    return {prop}


# ----------------------------------------------------------------------------
# run configuration (swarm)
# ----------------------------------------------------------------------------

def pick_language(rng, tier, p_corelang=0.02, gen_cfg=None):
    r = rng.random()
    if tier == 'thorough':
        p_corelang *= 1.5
        gen_cfg = dict(gen_cfg or {})
        if rng.random() < 0.3:
            gen_cfg.setdefault('max_types', 8)
            gen_cfg['max_types'] = max(gen_cfg['max_types'], 7)
            gen_cfg['max_assocs'] = 8
    if r < p_corelang:
        return corpus('corelang'), 'corelang'
    if r < p_corelang + 0.08:
        return small_fixed_specs()[1], 'fixed:net'
    if r < p_corelang + 0.12:
        return small_fixed_specs()[0], 'fixed:chain'
    cfgl = {'max_types': 5, 'max_assocs': 5, 'expr_depth': 1, 'transitive': False,
            'composite_ttc': False}
    cfgl.update(gen_cfg or {})
    for _ in range(20):
        spec = gen_spec(rng, cfgl)
        if spec['associations']:
            return spec, 'gen'
    return small_fixed_specs()[1], 'fixed:net'


def new_run_for(prop, rng, tier):
    spec, src = pick_language(rng, tier)
    cfg = {
        'prop': prop,
        'guards': findings.active_guards(prop),
        'steps': rng.randint(10, 60) if src != 'corelang' else rng.randint(8, 25),
        'n_models': 1 if rng.random() < 0.8 else 2,
        'odd_names': rng.random() < 0.4,
        'p_invalid': rng.choice([0.0, 0.1, 0.2, 0.35]),
        'p_reuse': rng.choice([0.2, 0.5, 0.8]),
        'w': {          # op weights, swarm style: some kinds switched off per run
            'add_asset': rng.choice([3, 5, 8]),
            'set_defense': rng.choice([0, 1, 2]),
            'remove_asset': rng.choice([0, 1, 2, 4]),
            'add_assoc': rng.choice([3, 5, 8]),
            'remove_assoc': rng.choice([0, 1, 2]),
            'remove_from_assoc': rng.choice([0, 1, 3]),
            'add_attacker': rng.choice([0, 1, 2]),
            'remove_attacker': rng.choice([0, 1]),
            'add_ep': rng.choice([0, 2, 3]),
            'remove_ep': rng.choice([0, 1, 2]),
            'restart': 0, 'foreign': 0, 'set_extras': rng.choice([0, 0, 1]),
            'set_assoc_extras': 0, 'legacy': 0, 'neo_ingest': 0, 'neo_import': 0,
            'neo_ingest_graph': 0, 'add_again': rng.choice([0, 1]), 'reload_old': 0,
            'stale_twin': rng.choice([0, 1]) if prop in ('C05', 'C06') else 0,
            # the language graph is regenerated while models built on it are in use
            'lg_regen': rng.choice([0, 0, 1]) if prop in ('C18', 'C19', 'C07') else 0,
        },
    }
    cfg['max_assets'] = 8
    cfg['max_assocs'] = 10
    # the language graph was regenerated (once or twice) before the classes are built from it
    cfg['lg_regen'] = rng.choice([0, 0, 0, 0, 0, 1, 2])
    if rng.random() < 0.15 and prop in ('C05', 'C06', 'C07'):
        # tiny universe: few assets, two names, ids 0..2 - short histories are sampled densely
        cfg['tiny'] = True
        cfg['max_assets'] = 3
        cfg['steps'] = rng.randint(4, 14)
        cfg['p_reuse'] = 0.8
    if tier == 'thorough' and src != 'corelang' and rng.random() < 0.5:
        # deeper bounds, not only more runs
        cfg['steps'] = rng.randint(40, 140)
        cfg['max_assets'] = rng.choice([8, 12, 16])
        cfg['max_assocs'] = rng.choice([10, 16, 24])
    if prop == 'C06':
        cfg['p_invalid'] = rng.choice([0.3, 0.5])
        cfg['w']['foreign'] = rng.choice([0, 1, 1])
    if prop == 'C19':
        cfg['w']['neo_ingest'] = rng.choice([2, 3])
        cfg['w']['neo_import'] = rng.choice([2, 3])
        cfg['w']['neo_ingest_graph'] = rng.choice([0, 1, 2])
        cfg['w']['set_assoc_extras'] = rng.choice([0, 1])
        cfg['peer_faults'] = rng.random() < 0.4
        cfg['odd_names'] = rng.random() < 0.3
    if prop == 'C18':
        cfg['w']['legacy'] = rng.choice([2, 3])
        cfg['w']['reload_old'] = rng.choice([1, 2])
        cfg['w']['set_extras'] = 0
        cfg['w']['add_attacker'] = rng.choice([1, 2])
        cfg['w']['add_ep'] = rng.choice([2, 4])
        cfg['odd_names'] = rng.random() < 0.3
        cfg['max_restarts'] = 3
    if prop == 'C07':
        cfg['w']['restart'] = rng.choice([1, 2, 3])
        cfg['w']['foreign'] = rng.choice([0, 1])
        cfg['w']['reload_old'] = rng.choice([0, 1])
        cfg['w']['set_extras'] = rng.choice([0, 1, 2])
        cfg['w']['set_assoc_extras'] = rng.choice([0, 1])
        cfg['p_process'] = 0.01 if tier == 'quick' else 0.04
        cfg['p_yaml'] = rng.choice([0.2, 0.5])
        cfg['storage_faults'] = rng.random() < 0.35
        cfg['max_restarts'] = 4
        cfg['odd_names'] = rng.random() < 0.6
    return cfg, {'spec': spec, 'source': src,
                 'model_names': [rng.choice(['m', 'Test Model', 'modél: 1', 'yes', '0'])
                                 for _ in range(2)]}


# ----------------------------------------------------------------------------
# observation of the real model (identity and .id only - never pjs ==)
# ----------------------------------------------------------------------------

def _plain(x):
    if hasattr(x, 'as_dict'):
        try:
            x = x.as_dict()
        except Exception:       # noqa: BLE001
            pass
    if hasattr(x, 'for_json') and not isinstance(x, (dict, list)):
        x = x.for_json()
    if isinstance(x, dict):
        # key *types* are kept: '1' and 1 are different keys of an extras dict
        return {k: _plain(v) for k, v in x.items()}
    if isinstance(x, (list, tuple)):
        return [_plain(v) for v in x]
    if hasattr(x, '_value'):
        return _plain(x._value)
    return x


def _msort(it):
    return sorted(it, key=lambda v: (isinstance(v, str), v))


def _num(x):
    return float(x)


def observe_model(model, L: Lang, with_neighbours=True):
    assets = list(model.assets)
    idx = {id(a): i for i, a in enumerate(assets)}
    assoc_list = list(model.associations)
    aidx = {id(s): i for i, s in enumerate(assoc_list)}

    def ref_of(member):
        i = idx.get(id(member))
        if i is None:
            return f'foreign:{int(member.id)}'
        return int(assets[i].id)

    out_assets = []
    for a in assets:
        typ = str(a.type)
        d = {'id': int(a.id), 'name': str(a.name), 'type': typ,
             'defenses': {n: _num(getattr(a, n)) for n in sorted(L.defenses(typ))}
             if typ in L.types else {},
             'extras': _plain(getattr(a, 'extras', {})) or {},
             'backrefs': sorted(aidx.get(id(s), -1) for s in list(a.associations))}
        out_assets.append(d)
    out_assocs = []
    for s in assoc_list:
        cls = type(s).__name__
        info = L.assoc_by_cls.get(cls)
        if info is None:
            out_assocs.append({'cls': cls, 'fields': {}, 'extras': {}})
            continue
        out_assocs.append({'cls': cls,
                           'fields': {info.lf: _msort(ref_of(x) for x in getattr(s, info.lf)),
                                      info.rf: _msort(ref_of(x) for x in getattr(s, info.rf))},
                           'extras': _plain(getattr(s, 'extras', {})) or {}})
    out_attackers = []
    for at in model.attackers:
        eps = []
        for asset, steps in at.entry_points:
            eps.append([ref_of(asset) if asset is not None else None, list(steps)])
        out_attackers.append({'id': at.id, 'name': at.name, 'entry_points': eps})
    neigh = {}
    if with_neighbours:
        fields = L.all_field_names()
        for a in assets:
            for f in fields:
                res = model.get_associated_assets_by_field_name(a, f)
                if res:
                    neigh[f'{int(a.id)}.{f}'] = sorted({ref_of(x) for x in res},
                                                       key=lambda v: (isinstance(v, str), v))
    return {'name': model.name, 'assets': out_assets, 'associations': out_assocs,
            'attackers': out_attackers, 'neighbours': neigh}


def normalise_obs(o):
    """Order-insensitive where the properties promise no order."""
    o = copy.deepcopy(o)
    # association list order is not promised: sort, and renumber back-references
    keyed = sorted(range(len(o['associations'])),
                   key=lambda i: canon(o['associations'][i]))
    renum = {old: new for new, old in enumerate(keyed)}
    o['associations'] = [o['associations'][i] for i in keyed]
    for a in o['assets']:
        a['backrefs'] = sorted(renum.get(b, -1) for b in a['backrefs'])
    # neither is the order of the asset list (YAML files are sorted by id)
    o['assets'] = sorted(o['assets'], key=lambda a: (a['id'], a['name']))
    o['attackers'] = sorted(o['attackers'], key=lambda a: (str(a['id']), str(a['name'])))
    for at in o['attackers']:
        at['entry_points'] = sorted([[e[0], sorted(e[1])] for e in at['entry_points']],
                                    key=canon)
    return o


def _fill_defenses(entry, L):
    """Every defense of the asset's type with its effective value: a serialisation
    may list all defenses or only the non-default ones, both say the same."""
    given = {n: float(x) for n, x in (entry.get('defenses') or {}).items()}
    if L is not None and entry.get('type') in L.types:
        full = dict(L.defenses(entry['type']))
        full.update(given)
        given = full
    entry = dict(entry)
    entry['defenses'] = given
    return entry


def normalise_to_dict(d, L=None):
    """Model._to_dict() -> comparable view (ids as ints, lists sorted)."""
    assets = {}
    for k, v in d['assets'].items():
        v = _plain(v)
        if not isinstance(v, dict):
            v = {'type': v, 'name': f'{v}:{k}'}
        assets[int(k)] = _fill_defenses(v, L)
    assocs = []
    for e in d['associations']:
        e = _plain(e)
        out = {}
        for k, v in e.items():
            if k == 'extras':
                out[k] = v
            else:
                out[k] = {f: sorted(int(i) for i in ids) for f, ids in v.items()}
        assocs.append(out)
    attackers = {}
    for k, v in d['attackers'].items():
        attackers[int(k) if k is not None else None] = {
            'name': v['name'],
            'entry_points': {int(a): {'attack_steps': sorted(e['attack_steps'])}
                             for a, e in v['entry_points'].items()}}
    return {'name': d['metadata']['name'], 'assets': assets,
            'associations': sorted(assocs, key=canon), 'attackers': attackers}


def normalise_ref_to_dict(d, L=None):
    d = copy.deepcopy(d)
    d['assets'] = {k: _fill_defenses(v, L) for k, v in d['assets'].items()}
    d['associations'] = sorted(d['associations'], key=canon)
    for v in d['attackers'].values():
        for e in v['entry_points'].values():
            e['attack_steps'] = sorted(e['attack_steps'])
    return d


# ----------------------------------------------------------------------------
# the world
# ----------------------------------------------------------------------------

class ModelWorld(BaseWorld):
    """One language, one factory, 1-2 models, reference models alongside."""

    def __init__(self, cfg, desc):
        super().__init__(cfg, desc)
        from maltoolbox.language import LanguageGraph, LanguageClassesFactory
        from maltoolbox.model import Model, AttackerAttachment
        self.Model, self.AttackerAttachment = Model, AttackerAttachment
        self.LanguageGraph, self.LanguageClassesFactory = LanguageGraph, LanguageClassesFactory
        self.prop = cfg['prop']
        self.armed = _clauses_for(self.prop)
        self.spec = copy.deepcopy(desc['spec'])
        self.L = Lang(copy.deepcopy(desc['spec']))
        o = call(LanguageGraph, self.spec)
        if o.raised:
            raise SetupRejected('langgraph:' + o.exc_name())
        self.lg = o.value
        for _ in range(cfg.get('lg_regen', 0)):
            r = call(self.lg.regenerate_graph)
            self.count('probe:language_graph_regenerated_before_the_classes_were_built')
            if r.raised:
                if self.prop == 'C06':
                    raise Violation('C06.classes', f'LanguageGraph.regenerate_graph() raised {r.exc!r} '
                                                   f'for a well-formed language')
                raise SetupRejected('langgraph_regen:' + r.exc_name())
        o = call(LanguageClassesFactory, self.lg)
        if o.raised:
            if self.prop == 'C06':
                raise Violation('C06.classes', f'LanguageClassesFactory raised {o.exc!r} for a '
                                               f'well-formed language ({len(self.L.order)} asset types, '
                                               f'{len(self.L.assocs)} associations)')
            raise SetupRejected('factory:' + o.exc_name())
        self.factory = o.value
        self.models = []
        self.refs = []
        for i in range(cfg.get('n_models', 1)):
            name = desc.get('model_names', ['m', 'm2'])[i]
            self.models.append(Model(name, self.factory))
            self.refs.append(RefModel(name, self.L))
        self.obj = {}           # handle -> real object
        self.owner = {}         # handle -> model index
        self.n = {'a': 0, 's': 0, 'k': 0}
        self.freed_ids = [[] for _ in self.models]
        self.freed_names = [[] for _ in self.models]
        self.recent_removed = [[] for _ in self.models]   # (id, name)
        self.recent_removed_attackers = [[] for _ in self.models]
        self.state_changes = 0
        self.key_events = 0
        self.restarts = 0
        self.paths_used = []
        self.removed_since = False
        self.neo_server = None
        self.old_files = []         # files written earlier: (loader kind, path, expected view)
        self.neo_expected = {}      # db -> {'nodes': [...], 'rels': [...], 'single_model': view|None}
        if desc.get('source') == 'corelang':
            self.count('probe:corelang')
        if self.L.dup_names:
            self.count('probe:language_with_duplicate_assoc_names')
        if self.prop == 'C06':
            self._check_classes()
            # a second factory built from the same language graph exposes the same classes
            o2 = call(LanguageClassesFactory, self.lg)
            if o2.raised:
                raise Violation('C06.classes', f'a second LanguageClassesFactory on the same '
                                               f'language graph raised {o2.exc!r}')
            first, self.factory = self.factory, o2.value
            try:
                self._check_classes()
            finally:
                self.factory = first
            self.count('probe:second_factory_on_one_language_graph')

    # ------------------------------------------------------------ plumbing
    def fail(self, clause, msg):
        """Armed clause -> violation; otherwise end the run (reference lost)."""
        if clause.split('.')[0] in self.armed:
            raise Violation(clause, msg)
        self.count('desync:' + clause)
        raise SetupRejected('desync:' + clause)

    def new_handle(self, kind):
        h = f'{kind}{self.n[kind]}'
        self.n[kind] += 1
        return h

    def _bump_handles(self, op):
        """Keep handle counters ahead of every handle seen (replay of edited lists)."""
        for key in ('h',):
            h = op.get(key)
            if isinstance(h, str) and h[:1] in self.n and h[1:].isdigit():
                self.n[h[0]] = max(self.n[h[0]], int(h[1:]) + 1)

    def resolve(self, h, kind=None):
        if h not in self.obj:
            raise Unresolvable()
        return self.obj[h]

    def _cls(self, name):
        cls = getattr(self.factory.ns, name, None)
        if cls is None:
            self.fail('C06.classes', f'the generated classes do not expose {name!r}, which the '
                                     f'language defines')
        return cls

    # ---------------------------------------------------------------- C06.classes
    def _check_classes(self):
        ns = self.factory.ns
        # "exactly the language's asset types ... and its association types": nothing from
        # the vocabulary of *other* languages (same name pools) may be exposed
        from . import lang as _lang
        import re
        mine = set(self.L.order) | {a.name for a in self.L.assocs} | {a.cls for a in self.L.assocs}
        pool = set(_lang.TYPE_NAMES) | set(_lang.ASSOC_NAMES) | {'Server', 'Base', 'Mid', 'Leaf',
                                                                 'Leaf2', 'Other', 'Peer'}
        sub = re.compile(r'^(%s)_(\w+)_(\w+)$' % '|'.join(sorted(_lang.ASSOC_NAMES) + ['Peer']))
        for name in dir(ns):
            if name.startswith('_') or name in mine:
                continue
            if name in pool or sub.match(name):
                raise Violation('C06.classes', f'the generated classes expose {name!r}, which this '
                                               f'language does not define (asset types '
                                               f'{self.L.order}, associations '
                                               f'{sorted(a.cls for a in self.L.assocs)})')
        for t in self.L.order:
            self.count('oracle:C06.classes')
            cls = getattr(ns, t, None)
            if cls is None:
                raise Violation('C06.classes', f'no class for asset type {t}')
            o = call(cls, name='probe')
            if o.raised:
                raise Violation('C06.classes', f'{t}(name=...) raised {o.exc!r}')
            a = o.value
            exp = self.L.defenses(t)
            for d, default in exp.items():
                v = call(getattr, a, d)
                if v.raised or v.value is None:
                    raise Violation('C06.classes', f'{t} does not expose defense {d}')
                if float(v.value) != default:
                    raise Violation('C06.classes',
                                    f'{t}.{d} defaults to {float(v.value)}, language says {default}')
            # nothing that is not a defense of the type is exposed as a [0,1] number
            others = {n for u in self.L.order for n in self.L.defenses(u)} - set(exp)
            for d in sorted(others):
                v = call(getattr, a, d)
                if not v.raised and v.value is not None:
                    raise Violation('C06.classes', f'{t} exposes {d}, which it neither defines '
                                                   f'nor inherits')
            if str(a.type) != t:
                raise Violation('C06.classes', f'{t}().type == {a.type!s}')
        for info in self.L.assocs:
            self.count('oracle:C06.classes')
            cls = getattr(ns, info.cls, None)
            if cls is None:
                raise Violation('C06.classes', f'no class {info.cls} for association {info.name} '
                                               f'({info.lt} -- {info.rt})')
            o = call(cls)
            if o.raised:
                raise Violation('C06.classes', f'{info.cls}() raised {o.exc!r}')
            names = sorted(o.value._properties.keys()) if hasattr(o.value, '_properties') else None
            if names is not None and names != sorted([info.lf, info.rf]):
                raise Violation('C06.classes', f'{info.cls} has fields {names}, language says '
                                               f'{sorted([info.lf, info.rf])}')
            sig = call(self.factory.get_association_by_signature, info.name, info.lt, info.rt)
            if sig.raised or sig.value != info.cls:
                raise Violation('C06.classes', f'get_association_by_signature({info.name},'
                                               f'{info.lt},{info.rt}) -> '
                                               f'{sig.exc if sig.raised else sig.value!r}, '
                                               f'expected {info.cls}')

    # ---------------------------------------------------------------- oracles
    def check_model(self, mi, raised=False, where=''):
        if self.prop == 'setup':
            # model builder for other worlds: nothing is judged here, and nothing is
            # called on the model that the scenario itself would not call
            return
        model, ref = self.models[mi], self.refs[mi]
        P = self.prop if self.prop in ('C05',) else 'C05'
        o = call(observe_model, model, self.L)
        if o.raised:
            self.fail(f'{P}.observe', f'observing the model raised {o.exc!r} after {where}')
        got = normalise_obs(o.value)
        exp = normalise_obs(ref.observe())
        self._state_digest = digest(exp)
        self.count(f'oracle:{P}.state')
        if got != exp:
            clause = f'{P}.raise_atomic' if raised else None
            if clause is None:
                for part, cl in (('assets', 'assets'), ('associations', 'associations'),
                                 ('attackers', 'attackers'), ('neighbours', 'neighbours'),
                                 ('name', 'assets')):
                    if part == 'assets':
                        ga = [{k: v for k, v in a.items() if k != 'backrefs'} for a in got['assets']]
                        ea = [{k: v for k, v in a.items() if k != 'backrefs'} for a in exp['assets']]
                        if ga != ea:
                            clause = f'{P}.assets'
                            break
                        if got['associations'] == exp['associations'] and \
                                [a['backrefs'] for a in got['assets']] != \
                                [a['backrefs'] for a in exp['assets']]:
                            clause = f'{P}.backrefs'
                            break
                    elif got[part] != exp[part]:
                        clause = f'{P}.{cl}'
                        break
                clause = clause or f'{P}.backrefs'
            self.fail(clause, f'after {where}: model differs from the reference model\n'
                      + _obs_diff(exp, got))
        # a caller that edits what a getter handed out does not edit the model
        self._scribbles = getattr(self, '_scribbles', 0) + 1
        if self._scribbles % 3 == 0 and exp['neighbours']:
            done = 0
            for a in list(model.assets):
                for f in self.L.all_field_names():
                    r = call(model.get_associated_assets_by_field_name, a, f)
                    if not r.raised and r.value and hasattr(r.value, 'clear'):
                        call(r.value.clear)
                        done += 1
            if done:
                self.count('probe:lists_handed_out_by_getters_edited')
                o2 = call(observe_model, model, self.L)
                if o2.raised or normalise_obs(o2.value) != exp:
                    self.fail(f'{P}.neighbours', f'after {where}: emptying the lists returned by '
                              f'get_associated_assets_by_field_name changed the model\n'
                              + ('' if o2.raised else _obs_diff(exp, normalise_obs(o2.value))))
        # uniqueness (also implied by the reference, stated separately for the message)
        ids = [a['id'] for a in got['assets']]
        names = [a['name'] for a in got['assets']]
        if len(set(ids)) != len(ids) or len(set(names)) != len(names):
            self.fail(f'{P}.unique', f'after {where}: ids {ids} names {names}')
        # lookups
        self.count(f'oracle:{P}.lookup')
        assets = list(model.assets)
        for a in assets:
            r = call(model.get_asset_by_id, int(a.id))
            if r.raised or r.value is not a:
                self.fail(f'{P}.lookup', f'after {where}: get_asset_by_id({int(a.id)}) does not '
                                         f'return the asset with that id')
            r = call(model.get_asset_by_name, str(a.name))
            if r.raised or r.value is not a:
                self.fail(f'{P}.lookup', f'after {where}: get_asset_by_name({str(a.name)!r}) does '
                                         f'not return the asset with that name')
        for rid, rname in self.recent_removed[mi][-4:]:
            if rid not in ids:
                r = call(model.get_asset_by_id, rid)
                if r.raised or r.value is not None:
                    self.fail(f'{P}.lookup', f'after {where}: get_asset_by_id({rid}) finds a removed asset')
            if rname not in names:
                r = call(model.get_asset_by_name, rname)
                if r.raised or r.value is not None:
                    self.fail(f'{P}.lookup', f'after {where}: get_asset_by_name({rname!r}) finds a removed asset')
        live_att = [at.id for at in model.attackers]
        for at in model.attackers:
            if live_att.count(at.id) == 1:
                r = call(model.get_attacker_by_id, at.id)
                if r.raised or r.value is not at:
                    self.fail(f'{P}.lookup', f'after {where}: get_attacker_by_id({at.id}) wrong')
        for rid in self.recent_removed_attackers[mi][-3:]:
            if rid not in live_att:
                r = call(model.get_attacker_by_id, rid)
                if r.raised or r.value is not None:
                    self.fail(f'{P}.lookup', f'after {where}: get_attacker_by_id({rid}) finds a removed attacker')
        # _to_dict
        self.count(f'oracle:{P}.to_dict')
        td = call(model._to_dict)
        if td.raised:
            self.fail(f'{P}.to_dict', f'after {where}: _to_dict() raised {td.exc!r}')
        gd = call(normalise_to_dict, td.value, self.L)
        if gd.raised:
            self.fail(f'{P}.to_dict', f'after {where}: _to_dict() has an unexpected shape: {gd.exc!r}')
        ed = normalise_ref_to_dict(ref.to_dict_view(), self.L)
        if gd.value != ed:
            if 'C05' not in self.armed:
                # the model itself equals the reference (checked above), only its
                # serialised view is off: the reference stays valid, the run goes on and
                # the property at hand (e.g. C07: what gets saved) judges the consequences
                self.count('soft:C05.to_dict')
            else:
                self.fail(f'{P}.to_dict', f'after {where}: _to_dict() differs from the reference\n'
                          + _obs_diff(ed, gd.value))
        if 'C06' in self.armed:
            self.check_c06_invariant(mi, where)

    def check_c06_invariant(self, mi, where):
        """Evaluated on the real model only."""
        model = self.models[mi]
        self.count('oracle:C06.invariant')
        for a in model.assets:
            typ = str(a.type)
            for d in self.L.defenses(typ) if typ in self.L.types else []:
                v = float(getattr(a, d))
                if not (0.0 <= v <= 1.0):
                    raise Violation('C06.invariant', f'after {where}: {str(a.name)}.{d} = {v}')
        seen_pairs = {}
        for s in model.associations:
            cls = type(s).__name__
            info = self.L.assoc_by_cls.get(cls)
            if info is None:
                raise Violation('C06.invariant', f'after {where}: association of unknown class {cls}')
            for f, typ, mx in ((info.lf, info.lt, info.lmax), (info.rf, info.rt, info.rmax)):
                members = list(getattr(s, f))
                for m in members:
                    if not self.L.is_sub(str(m.type), typ):
                        raise Violation('C06.invariant',
                                        f'after {where}: {cls}.{f} holds a {str(m.type)}, declared {typ}')
                if mx and len(members) > mx:
                    raise Violation('C06.invariant',
                                    f'after {where}: {cls}.{f} holds {len(members)} assets, max {mx}')
                idents = [id(m) for m in members]
                if len(set(idents)) != len(idents):
                    raise Violation('C06.invariant', f'after {where}: {cls}.{f} holds an asset twice')
            for l in getattr(s, info.lf):
                for r in getattr(s, info.rf):
                    key = (cls, id(l), id(r))
                    if key in seen_pairs:
                        raise Violation('C06.invariant',
                                        f'after {where}: two {cls} links between '
                                        f'{str(l.name)} and {str(r.name)}')
                    seen_pairs[key] = True

    # ---------------------------------------------------------- op generation
    def _names(self, rng):
        if self.cfg.get('odd_names') and rng.random() < 0.5:
            return rng.choice(NAMES_ODD)
        return rng.choice(NAMES_PLAIN)

    def gen_op(self, rng):
        w = self.cfg['w']
        mi = rng.randrange(len(self.models))
        ref = self.refs[mi]
        table = [(w[k], k) for k in sorted(w) if w[k] > 0]
        if len(ref.order) < 2:
            table.append((10, 'add_asset'))
        if self.restarts >= self.cfg.get('max_restarts', 4):
            table = [(x, k) for x, k in table if k not in ('restart', 'foreign', 'legacy')]
        for _ in range(8):
            kind = weighted(rng, table)
            op = getattr(self, 'gen_' + kind)(rng, mi, ref)
            if op is not None:
                op['m'] = mi
                return op
        return None

    def guard(self, name):
        """True if ops of this class are withheld because of a listed known finding."""
        if name in self.guards:
            self.count('guarded:' + name)
            return True
        return False

    def gen_add_asset(self, rng, mi, ref):
        if len(ref.order) >= self.cfg.get('max_assets', 8) and rng.random() < 0.8:
            return None
        types = self.L.concrete() if rng.random() < 0.9 else self.L.order
        t = rng.choice(types)
        p_inv = self.cfg['p_invalid']
        live_ids = sorted(ref.live_ids())
        live_names = sorted(ref.live_names())
        # --- id
        r = rng.random()
        if r < 0.45:
            aid = None
        elif r < 0.45 + 0.3 * self.cfg['p_reuse'] and self.freed_ids[mi]:
            aid = self.freed_ids[mi][-1] if rng.random() < 0.7 else rng.choice(self.freed_ids[mi])
        elif r < 0.75:
            aid = rng.choice([0, 0, -1, -7, 3, 5, 10, 12, 100, 6772009123833071681])
        elif r < 0.75 + p_inv * 0.5 and live_ids:
            aid = rng.choice(live_ids)                # in use: must be refused
        elif r < 0.75 + p_inv * 0.7:
            aid = rng.choice([2.5, '7', 3.0001])      # not an integer: must be refused
        else:
            aid = rng.randint(0, 15)
        # --- name
        r = rng.random()
        allow = rng.random() < 0.7
        if r < 0.25:
            name = None
        elif r < 0.25 + 0.3 * self.cfg['p_reuse'] and self.freed_names[mi]:
            name = self.freed_names[mi][-1]
        elif r < 0.55 + p_inv * 0.6 and live_names:
            name = rng.choice(live_names)             # duplicate: renamed or refused
        else:
            name = self._names(rng)
        if live_ids and rng.random() < 0.05:
            name = str(rng.choice(live_ids))          # a name that reads like another asset's id
        if self.cfg.get('tiny'):
            aid = rng.choice([None, None, 0, 1, 2, -1])
            name = rng.choice([None, 'a', 'a', 'b'])
        defs = {}
        dnames = sorted(self.L.defenses(t))
        for d in dnames:
            if rng.random() < 0.3:
                defs[d] = rng.choice([0.0, 1.0, 0.5, 0.25, 1, 0, 0.999, 1 / 3, 2.5e-7,
                                      0.123456789, 0.9999997])
        if dnames and rng.random() < p_inv * 0.3:
            defs[rng.choice(dnames)] = rng.choice([-0.1, 1.5, 2, -1, 1.0001])
        extras = rng.choice(EXTRAS) if rng.random() < 0.2 else None
        if name is None and self.guard('unnamed_asset_structural_eq'):
            name = self._names(rng)
        return {'op': 'add_asset', 'h': self.new_handle('a'), 'type': t, 'name': name,
                'id': aid, 'allow_dup': allow, 'defenses': defs,
                'ctor': rng.random() < 0.5, 'extras': extras}

    def gen_add_again(self, rng, mi, ref):
        """An object that is already part of the model is handed to add_asset /
        add_attacker a second time."""
        if rng.random() > self.cfg['p_invalid'] or self.guard('add_same_object_twice'):
            return None
        if ref.attacker_order and rng.random() < 0.3:
            return {'op': 'add_again', 'kind': 'attacker', 'h': rng.choice(ref.attacker_order),
                    'id': rng.choice([None, 77])}
        if not ref.order:
            return None
        return {'op': 'add_again', 'kind': 'asset', 'h': rng.choice(ref.order),
                'id': rng.choice([None, None, 55, 0])}

    def gen_set_defense(self, rng, mi, ref):
        cands = [h for h in ref.order if ref.assets[h].defenses]
        if not cands:
            return None
        h = rng.choice(cands)
        d = rng.choice(sorted(ref.assets[h].defenses))
        if rng.random() < self.cfg['p_invalid']:
            v = rng.choice([-0.5, 1.5, 7, -1, 1.01])
        else:
            v = rng.choice([0.0, 1.0, 0.5, 0.75, 1, 0, 1 / 3, 2.5e-7, 0.9999997])
        return {'op': 'set_defense', 'h': h, 'defense': d, 'value': v}

    def _stale_ok(self, ref, h):
        """A removed asset may be used as an argument only if it is not
        value-equal to a live one (pjs objects compare by value)."""
        a = ref.assets[h]
        return not any(ref.assets[x].id == a.id and ref.assets[x].name == a.name
                       for x in ref.order)

    def gen_lg_regen(self, rng, mi, ref):
        return {'op': 'lg_regen'}

    def do_lg_regen(self, op, mi, model, ref):
        # something is looked up first (indexes, if there are any, get built), then the
        # language graph is regenerated; loaders and importers use it afterwards
        for t in self.L.order[:3]:
            call(self.lg.get_asset_by_name, t)
        r = call(self.lg.regenerate_graph)
        if r.raised:
            raise SetupRejected('langgraph_regen:' + r.exc_name())
        self.count('probe:language_graph_regenerated_mid_run')
        self.check_model(mi, where='LanguageGraph.regenerate_graph()')
        return 'ok'

    def gen_stale_twin(self, rng, mi, ref):
        """A handle somebody kept: an object is removed, a new object with the same content
        takes its place, then the old handle is used again."""
        if ref.assoc_order and rng.random() < 0.5:
            return {'op': 'stale_twin', 'what': 'assoc', 'h': rng.choice(ref.assoc_order),
                    'h2': self.new_handle('s')}
        if ref.order:
            return {'op': 'stale_twin', 'what': 'asset', 'h': rng.choice(ref.order),
                    'hb': self.new_handle('a'), 'ha': self.new_handle('a')}
        return None

    def gen_remove_asset(self, rng, mi, ref):
        if not ref.order:
            return None
        if rng.random() < self.cfg['p_invalid'] * 0.5:
            dead = [h for h, a in ref.assets.items() if not a.live and h in self.obj
                    and self._stale_ok(ref, h)]
            if dead:
                return {'op': 'remove_asset', 'h': rng.choice(sorted(dead))}
        # bias: assets that sit in multi-member fields / self links
        return {'op': 'remove_asset', 'h': rng.choice(ref.order)}

    def gen_add_assoc(self, rng, mi, ref):
        if not self.L.assocs or not ref.order:
            return None
        if len(ref.assoc_order) >= self.cfg.get('max_assocs', 10) and rng.random() < 0.8:
            return None
        p_inv = self.cfg['p_invalid']
        # choose an association class that has candidates on both sides
        infos = list(self.L.assocs)
        rng.shuffle(infos)
        for info in infos:
            lc = [h for h in ref.order if self.L.is_sub(ref.assets[h].type, info.lt)]
            rc = [h for h in ref.order if self.L.is_sub(ref.assets[h].type, info.rt)]
            if lc and rc:
                break
        else:
            return None
        invalid = None
        if rng.random() < p_inv:
            invalid = rng.choice(['type', 'max', 'repeat', 'duplicate', 'nonmember'])

        def pick(cands, mx):
            k = rng.choice([1, 1, 1, 2, 2, 3])
            if mx:
                k = min(k, mx)
            k = min(k, len(cands))
            c = list(cands)
            rng.shuffle(c)
            return c[:k]
        left, right = pick(lc, info.lmax), pick(rc, info.rmax)
        if rng.random() < 0.25:                       # bias towards a self link
            both = [h for h in lc if h in rc]
            if both:
                x = rng.choice(both)
                if x not in left:
                    left[0] = x
                if x not in right:
                    right[0] = x
        if invalid == 'type':
            wrong = [h for h in ref.order if not self.L.is_sub(ref.assets[h].type, info.lt)]
            if wrong:
                left[rng.randrange(len(left))] = rng.choice(wrong)
            else:
                wrong = [h for h in ref.order if not self.L.is_sub(ref.assets[h].type, info.rt)]
                if wrong:
                    right[rng.randrange(len(right))] = rng.choice(wrong)
        elif invalid == 'max':
            if info.lmax and len(lc) > info.lmax:
                c = list(lc)
                rng.shuffle(c)
                left = c[:info.lmax + 1]
            elif info.rmax and len(rc) > info.rmax:
                c = list(rc)
                rng.shuffle(c)
                right = c[:info.rmax + 1]
        elif invalid == 'repeat':
            if rng.random() < 0.5 and not (info.lmax and len(left) + 1 > info.lmax):
                left = left + [left[0]]
            elif not (info.rmax and len(right) + 1 > info.rmax):
                right = right + [right[0]]
        elif invalid == 'nonmember':
            # an asset object that is not (or no longer) part of the model
            out = [h for h, a in ref.assets.items() if not a.live and h in self.obj
                   and self.owner.get(h) == mi and self._stale_ok(ref, h)
                   and (self.L.is_sub(a.type, info.lt) or self.L.is_sub(a.type, info.rt))]
            if out and not self.guard('association_with_nonmember'):
                x = rng.choice(sorted(out))
                if self.L.is_sub(ref.assets[x].type, info.rt) and rng.random() < 0.6:
                    right = right[:-1] + [x] if len(right) > 1 and rng.random() < 0.5 else right + [x]
                    if info.rmax and len(right) > info.rmax:
                        right = [x]
                elif self.L.is_sub(ref.assets[x].type, info.lt):
                    left = left + [x] if not (info.lmax and len(left) + 1 > info.lmax) else [x]
        elif invalid == 'duplicate':
            same = [s for s in ref.assoc_order if ref.assocs[s].cls == info.cls]
            if same:
                a = ref.assocs[rng.choice(same)]
                if rng.random() < 0.5:
                    left, right = list(a.left), list(a.right)
                else:
                    left = [rng.choice(a.left)] + [h for h in left if h not in a.left][:1]
                    right = [rng.choice(a.right)] + [h for h in right if h not in a.right][:1]
        selfl = any(h in right for h in left)
        if selfl and self.guard('self_link'):
            return None
        op = {'op': 'add_assoc', 'h': self.new_handle('s'), 'cls': info.cls,
              'left': left, 'right': right}
        if rng.random() < 0.3:
            # the fields are filled the way a list is: first member assigned, the others
            # appended; the caller may look at a field before the add, and may simply try
            # again after a refusal
            op['how'] = 'append'
            op['peek'] = rng.random() < 0.4
        if invalid and rng.random() < 0.4:
            op['attempts'] = 2
        return op

    def _stale_assoc_ok(self, ref, s):
        """A removed association may be used as an argument only if no live
        association has the same members in the same fields (value equality)."""
        a = ref.assocs[s]
        info = self.L.assoc_by_cls[a.cls]
        for x in ref.assoc_order:
            b = ref.assocs[x]
            ib = self.L.assoc_by_cls[b.cls]
            if (info.lf, info.rf) == (ib.lf, ib.rf) and a.left == b.left and a.right == b.right:
                return False
        return all(ref.assets[h].live for h in a.left + a.right)

    def gen_remove_assoc(self, rng, mi, ref):
        if rng.random() < self.cfg['p_invalid'] * 0.5:
            dead = [s for s, a in ref.assocs.items() if not a.live and s in self.obj
                    and self._stale_assoc_ok(ref, s)]
            if dead:
                return {'op': 'remove_assoc', 'h': rng.choice(sorted(dead))}
        if not ref.assoc_order:
            return None
        return {'op': 'remove_assoc', 'h': rng.choice(ref.assoc_order)}

    def gen_remove_from_assoc(self, rng, mi, ref):
        if not ref.assoc_order:
            return None
        if self.guard('remove_asset_from_association'):
            return None
        s = rng.choice(ref.assoc_order)
        a = ref.assocs[s]
        if rng.random() < self.cfg['p_invalid'] * 0.5:
            non = [h for h in ref.order if h not in a.left and h not in a.right]
            if non:
                return {'op': 'remove_from_assoc', 'asset': rng.choice(non), 'assoc': s}
        # bias: multi-member fields
        multi = [x for x in ref.assoc_order
                 if len(ref.assocs[x].left) > 1 or len(ref.assocs[x].right) > 1]
        if multi and rng.random() < 0.6:
            s = rng.choice(multi)
            a = ref.assocs[s]
        return {'op': 'remove_from_assoc', 'asset': rng.choice(a.left + a.right), 'assoc': s}

    def gen_add_attacker(self, rng, mi, ref):
        if len(ref.attacker_order) >= 3:
            return None
        r = rng.random()
        used = {ref.attackers[k].id for k in ref.attacker_order}
        if r < 0.5:
            kid = None
        else:
            kid = rng.choice([0, 1, 5, 20, 33, -2, 100])
            if kid in used and (self.prop == 'setup' or self.guard('attacker_id_in_use')
                                or rng.random() < 0.5):
                # (tests/test_model.py pins that add_attacker accepts an id in use; what
                # that does to a saved file is the known finding of C07)
                kid = None
            elif self.prop != 'setup' and self.cfg.get('p_invalid', 0) and rng.random() < 0.12:
                kid = rng.choice(['7', 2.5, '3'])       # not an integer: must be refused
        name = rng.choice([None, None, '', 'Attacker1', 'eve', 'yes', 'Attacker:0'])
        names = {ref.attackers[k].name for k in ref.attacker_order}
        if name in names:
            name = None
        return {'op': 'add_attacker', 'h': self.new_handle('k'), 'id': kid, 'name': name}

    def gen_remove_attacker(self, rng, mi, ref):
        if not ref.attacker_order:
            return None
        return {'op': 'remove_attacker', 'h': rng.choice(ref.attacker_order)}

    def _steps_of(self, ref, h):
        return sorted(self.L.steps(ref.assets[h].type))

    def gen_add_ep(self, rng, mi, ref):
        if not ref.attacker_order or not ref.order:
            return None
        k = rng.choice(ref.attacker_order)
        h = rng.choice(ref.order)
        steps = self._steps_of(ref, h)
        if not steps:
            return None
        st = rng.choice(steps) if rng.random() < 0.9 else 'noSuchStep'
        return {'op': 'add_ep', 'k': k, 'asset': h, 'step': st}

    def gen_remove_ep(self, rng, mi, ref):
        if not ref.attacker_order or not ref.order:
            return None
        k = rng.choice(ref.attacker_order)
        at = ref.attackers[k]
        if at.eps and rng.random() < 0.75:
            h, steps = rng.choice(at.eps)
            st = rng.choice(steps) if rng.random() < 0.85 else 'absent'
        else:
            h = rng.choice(ref.order)
            st = rng.choice(self._steps_of(ref, h) or ['x'])
        return {'op': 'remove_ep', 'k': k, 'asset': h, 'step': st}

    def gen_set_extras(self, rng, mi, ref):
        if not ref.order:
            return None
        return {'op': 'set_extras', 'h': rng.choice(ref.order),
                'extras': rng.choice(EXTRAS + [{}])}

    def gen_set_assoc_extras(self, rng, mi, ref):
        if not ref.assoc_order or self.guard('association_extras'):
            return None
        return {'op': 'set_assoc_extras', 'h': rng.choice(ref.assoc_order),
                'extras': rng.choice(EXTRAS + [{}])}

    def _gen_fault(self, rng):
        if not self.cfg.get('storage_faults') or rng.random() > 0.3:
            return None
        phase = rng.choice(['save', 'save', 'load'])
        if phase == 'save':
            return {'phase': 'save', 'kind': rng.choice(['ENOSPC', 'EIO']),
                    'at': rng.choice(['write', 'write', 'close', 'open']),
                    'after': rng.choice([0, 1, 17, 64, 200, 1000])}
        return {'phase': 'load', 'kind': 'EIO', 'at': rng.choice(['read', 'open']), 'after': 0}

    def gen_restart(self, rng, mi, ref):
        fmt = 'json'
        if rng.random() < self.cfg.get('p_yaml', 0.3):
            fmt = rng.choice(['yml', 'yaml'])
        how = 'model'
        if len(self.models) == 1:
            how = weighted(rng, [(6, 'model'), (2, 'factory'), (2, 'lang')])
        if rng.random() < self.cfg.get('p_process', 0.0):
            how = 'process'
        return {'op': 'restart', 'fmt': fmt, 'reuse': rng.random() < 0.4, 'how': how,
                'fault': self._gen_fault(rng),
                'hashseed': rng.choice([1, 2, 7, 99, 12345]),
                'share_steps': rng.random() < 0.4}

    def gen_legacy(self, rng, mi, ref):
        ids = [ref.assets[h].id for h in ref.order]
        rng.shuffle(ids)
        nlinks = len(legacy.pairwise_links(ref))
        neps = sum(len(st) for k in ref.attacker_order for _, st in ref.attackers[k].eps)
        kind = weighted(rng, [(3, 'json'), (2, 'yaml'), (4, 'scad')])
        read_fault = rng.random() < 0.12
        if kind == 'scad':
            return {'op': 'legacy', 'kind': 'scad', 'read_fault': read_fault,
                    'flip': [rng.random() < 0.5 for _ in range(nlinks)],
                    'ep_flip': [rng.random() < 0.5 for _ in range(neps)],
                    'perm': rng.randrange(7), 'all_defenses': rng.random() < 0.3,
                    'empty_dist': rng.random() < 0.5, 'stale_entry': rng.random() < 0.15}
        return {'op': 'legacy', 'kind': '0.0.39', 'fmt': kind, 'read_fault': read_fault,
                'wrapper': rng.random() < 0.6,
                'shorthand': rng.random() < 0.5, 'all_defenses': rng.random() < 0.4,
                'scalar_targets': rng.random() < 0.3, 'order': ids,
                'dup_name': [rng.randrange(100), rng.randrange(100)] if rng.random() < 0.25 else None}

    def _gen_peer_fault(self, rng):
        if self.cfg.get('peer_faults') and rng.random() < 0.3:
            return rng.choice(['connect', 'commit', 'delete'])
        return None

    def gen_neo_ingest(self, rng, mi, ref):
        return {'op': 'neo_ingest', 'delete': rng.random() < 0.7, 'db': rng.choice([0, 0, 1]),
                'fault': self._gen_peer_fault(rng)}

    def gen_neo_import(self, rng, mi, ref):
        dbs = [k for k, v in self.neo_expected.items() if v.get('single_model') is not None]
        if not dbs:
            return None
        return {'op': 'neo_import', 'db': rng.choice(sorted(dbs)), 'row_seed': rng.randrange(10 ** 6)}

    def gen_neo_ingest_graph(self, rng, mi, ref):
        if not ref.order:
            return None
        return {'op': 'neo_ingest_graph', 'delete': rng.random() < 0.7, 'db': rng.choice([0, 1]),
                'attach': rng.random() < 0.5, 'analyse': rng.random() < 0.5,
                'remove': [rng.randrange(200) for _ in range(rng.choice([0, 0, 1, 2, 4]))],
                'prune': rng.random() < 0.3,
                'twins': [rng.randrange(200) for _ in range(rng.choice([0, 0, 0, 1, 2]))],
                'fault': self._gen_peer_fault(rng)}

    def gen_reload_old(self, rng, mi, ref):
        live = [i for i, f in enumerate(self.old_files) if os.path.exists(f[1])]
        if not live:
            return None
        return {'op': 'reload_old', 'i': rng.choice(live)}

    def gen_foreign(self, rng, mi, ref):
        ids = [ref.assets[h].id for h in ref.order]
        rng.shuffle(ids)
        op = {'op': 'foreign', 'fmt': rng.choice(['json', 'json', 'yml']),
              'order': ids, 'str_keys': rng.random() < 0.5,
              'shorthand': rng.random() < 0.6, 'scalar_targets': rng.random() < 0.4,
              'extras_first': rng.random() < 0.5, 'how': 'model'}
        if self.prop == 'C06' and ref.assoc_order and rng.random() < 0.7:
            # the file lists one link twice (a second entry that repeats a pair of an earlier
            # one): what add_association refuses must not get in through a file either
            op['invalid'] = 'dup_link'
            op['k'] = rng.randrange(100)
        return op

    # ------------------------------------------------------------- execution
    def apply(self, op):
        kind = op['op']
        mi = op.get('m', 0)
        if mi >= len(self.models):
            raise Unresolvable()
        self._bump_handles(op)
        fn = getattr(self, 'do_' + kind, None)
        if fn is None:
            raise Unresolvable()
        self.count('op:' + kind)
        self._state_digest = ''
        out = fn(op, mi, self.models[mi], self.refs[mi])
        self.count('out:' + out)
        return [kind, out, self._state_digest]

    def finish(self):
        pass

    def nontrivial(self):
        return self.state_changes >= 5 and self.key_events >= 1

    # -- assets
    def do_add_asset(self, op, mi, model, ref):
        t = op['type']
        if t not in self.L.types:
            raise Unresolvable()
        h = op['h']
        if h in self.obj:
            raise Unresolvable()
        exp_def = self.L.defenses(t)
        defs = op.get('defenses') or {}
        if any(d not in exp_def for d in defs):
            raise Unresolvable()
        bad_def = any(not (0 <= v <= 1) for v in defs.values())
        kwargs = {}
        if op.get('name') is not None:
            kwargs['name'] = op['name']
        if op.get('extras') is not None:
            kwargs['extras'] = copy.deepcopy(op['extras'])
        if op.get('ctor'):
            kwargs.update(defs)
        cls = self._cls(t)

        def build():
            a = cls(**kwargs)
            if not op.get('ctor'):
                for d, v in defs.items():
                    setattr(a, d, v)
            return a
        o = call(build)
        if bad_def:
            self.count('fault:rejected_defense_out_of_range')
            if not o.raised:
                self.count('oracle:C06.rejected')
                if 'C06' in self.armed:
                    raise Violation('C06.rejected', f'{t}: defense values {defs} accepted')
                raise SetupRejected('desync:C06.rejected')
            self.key_events += self.prop == 'C06'
            self.check_model(mi, raised=True, where=f'rejected construction {op}')
            return 'rejected'
        if o.raised:
            self.fail('C05.must_not_raise', f'constructing {t}({kwargs}) raised {o.exc!r}')
        asset = o.value
        self.obj[h] = asset
        self.owner[h] = mi
        aid, name, allow = op.get('id'), op.get('name'), op.get('allow_dup', True)
        live_ids, live_names = ref.live_ids(), ref.live_names()
        must_raise = (aid is not None and aid in live_ids) or \
                     (name is not None and name in live_names and not allow) or \
                     (aid is not None and (isinstance(aid, bool) or not isinstance(aid, int)))
        kw = {}
        if aid is not None:
            kw['asset_id'] = aid
        if not allow:
            kw['allow_duplicate_names'] = False
        o = call(model.add_asset, asset, **kw)
        where = f'add_asset({t}, name={name!r}, id={aid}, allow_dup={allow})'
        ra = RefAsset(h, t, name, {d: float(defs.get(d, default)) for d, default in exp_def.items()},
                      op.get('extras'))
        ref.assets.setdefault(h, ra)
        if o.raised:
            if not must_raise:
                self.fail('C05.must_not_raise', f'{where} raised {o.exc!r}; live ids '
                                                f'{sorted(live_ids)}, live names {sorted(live_names)}')
            self.count('fault:rejected_add_asset')
            self.check_model(mi, raised=True, where=where)
            return 'rejected'
        real_id, real_name = int(asset.id), str(asset.name)
        if aid is not None and real_id != aid:
            self.fail('C05.explicit_id', f'{where}: asset got id {real_id}')
        if real_id in live_ids:
            self.fail('C05.unique', f'{where}: id {real_id} is now used by two live assets')
        if name is not None and name not in live_names and real_name != name:
            self.fail('C05.assets', f'{where}: asset was renamed to {real_name!r} although the '
                                    f'name was free (live names {sorted(live_names)})')
        if real_name in live_names:
            self.fail('C05.unique', f'{where}: name {real_name!r} is now used by two live assets')
        if aid is not None and aid in self.freed_ids[mi]:
            self.count('probe:freed_id_reused')
            self.freed_ids[mi].remove(aid)
        if name is not None and name in self.freed_names[mi]:
            self.count('probe:freed_name_reused')
            self.freed_names[mi].remove(name)
        if aid == 0 and live_ids:
            self.count('probe:explicit_id0_not_first')
        if aid is not None and aid < 0:
            self.count('probe:negative_id')
        if self.removed_since:
            self.key_events += self.prop == 'C05'
        ref.add_asset(ra, real_id, real_name)
        self.state_changes += 1
        self.check_model(mi, where=where)
        return 'ok'

    def do_add_again(self, op, mi, model, ref):
        h = op['h']
        obj = self.resolve(h)
        if op['kind'] == 'asset':
            ra = ref.assets.get(h)
            if ra is None or not ra.live or self.owner.get(h) != mi:
                raise Unresolvable()
            kw = {} if op.get('id') is None else {'asset_id': op['id']}
            o = call(model.add_asset, obj, **kw)
            where = f'add_asset of {ra.name!r}, which is already part of the model (id={op.get("id")})'
        else:
            rk = ref.attackers.get(h)
            if rk is None or not rk.live or self.owner.get(h) != mi:
                raise Unresolvable()
            kw = {} if op.get('id') is None else {'attacker_id': op['id']}
            o = call(model.add_attacker, obj, **kw)
            where = f'add_attacker of {rk.name!r}, which is already part of the model'
        self.count('fault:rejected_add_same_object_twice')
        if not o.raised:
            self.fail('C05.unique', f'{where} was accepted: the object is now listed twice')
        self.check_model(mi, raised=True, where=where)
        return 'rejected'

    def do_set_defense(self, op, mi, model, ref):
        h = op['h']
        asset = self.resolve(h)
        ra = ref.assets.get(h)
        if ra is None or not ra.live or op['defense'] not in ra.defenses:
            raise Unresolvable()
        v = op['value']
        valid = 0 <= v <= 1
        o = call(setattr, asset, op['defense'], v)
        where = f'{ra.name}.{op["defense"]} = {v}'
        if not valid:
            self.count('fault:rejected_defense_out_of_range')
            self.count('oracle:C06.rejected')
            if not o.raised:
                if 'C06' in self.armed:
                    raise Violation('C06.rejected', f'{where} was accepted')
                raise SetupRejected('desync:C06.rejected')
            self.key_events += self.prop == 'C06'
            self.check_model(mi, raised=True, where=where)
            return 'rejected'
        if o.raised:
            self.fail('C05.must_not_raise', f'{where} raised {o.exc!r}')
        ra.defenses[op['defense']] = float(v)
        self.state_changes += 1
        self.check_model(mi, where=where)
        return 'ok'

    def do_remove_asset(self, op, mi, model, ref):
        h = op['h']
        asset = self.resolve(h)
        ra = ref.assets.get(h)
        if ra is None or self.owner.get(h) != mi:
            raise Unresolvable()
        where = f'remove_asset({ra.name!r} id {ra.id})'
        if not ra.live and not self._stale_ok(ref, h):
            raise Unresolvable()
        o = call(model.remove_asset, asset)
        if not ra.live:
            self.count('fault:rejected_remove_nonmember')
            self.check_model(mi, raised=o.raised, where=where + ' [not in model]')
            return 'rejected' if o.raised else 'noop'
        if o.raised:
            self.fail('C05.must_not_raise', f'{where} raised {o.exc!r}')
        if any(h in ref.assocs[s].left and h in ref.assocs[s].right for s in ref.assocs_of(h)):
            self.count('probe:self_linked_asset_removed')
        if any(len(ref.assocs[s].left) > 1 or len(ref.assocs[s].right) > 1
               for s in ref.assocs_of(h)):
            self.count('probe:asset_removed_from_multi_member_field')
        if any(e[0] == h for k in ref.attacker_order for e in ref.attackers[k].eps):
            self.count('probe:entry_point_asset_removed')
        ref.remove_asset(h)
        self.freed_ids[mi].append(ra.id)
        self.freed_names[mi].append(ra.name)
        self.recent_removed[mi].append((ra.id, ra.name))
        self.removed_since = True
        self.state_changes += 1
        self.check_model(mi, where=where)
        return 'ok'

    def do_stale_twin(self, op, mi, model, ref):
        if op['what'] == 'assoc':
            h, h2 = op['h'], op['h2']
            rs = ref.assocs.get(h)
            if rs is None or not rs.live or h2 in self.obj or self.owner.get(h) != mi:
                raise Unresolvable()
            X = self.resolve(h)
            info = self.L.assoc_by_cls[rs.cls]
            left, right = list(rs.left), list(rs.right)
            where = f'remove_association({rs.cls}); add_association(<new object, same type and members>)'
            o = call(model.remove_association, X)
            if o.raised:
                self.fail('C05.must_not_raise', f'remove_association({rs.cls}) raised {o.exc!r}')
            ref.remove_assoc(h)
            cls = self._cls(info.cls)

            def build():
                y = cls()
                setattr(y, info.lf, [self.obj[x] for x in left])
                setattr(y, info.rf, [self.obj[x] for x in right])
                model.add_association(y)
                return y
            o = call(build)
            if o.raised:
                self.fail('C05.must_not_raise', f'{where} raised {o.exc!r}')
            self.obj[h2] = o.value
            self.owner[h2] = mi
            ref.add_assoc(RefAssoc(h2, info.cls, left, right))
            self.check_model(mi, where=where)
            # the old handle again: refused without change, or the twin goes - as a whole
            o = call(model.remove_association, X)
            self.count('fault:removed_association_removed_again_while_a_twin_is_live')
            if not o.raised:
                ref.remove_assoc(h2)
            self.state_changes += 1
            self.check_model(mi, raised=o.raised,
                             where=where + '; remove_association(<the removed object>) '
                                           f'[{"refused" if o.raised else "returned"}]')
            return 'refused' if o.raised else 'twin_removed'
        h, hb, ha = op['h'], op['hb'], op['ha']
        ra = ref.assets.get(h)
        if ra is None or not ra.live or hb in self.obj or ha in self.obj or self.owner.get(h) != mi:
            raise Unresolvable()
        A = self.resolve(h)
        where = f'remove_asset({ra.name!r} id {ra.id})'
        o = call(model.remove_asset, A)
        if o.raised:
            self.fail('C05.must_not_raise', f'{where} raised {o.exc!r}')
        ref.remove_asset(h)
        self.recent_removed[mi].append((ra.id, ra.name))
        self.removed_since = True
        cls = self._cls(ra.type)
        kw = dict(ra.defenses)
        kw['name'] = ra.name
        o = call(lambda: cls(**kw))
        if o.raised:
            raise SetupRejected('twin:' + o.exc_name())
        B = o.value
        where += f'; add_asset(<new {ra.type} {ra.name!r}>, asset_id={ra.id})'
        o = call(model.add_asset, B, asset_id=ra.id)
        if o.raised:
            self.fail('C05.must_not_raise', f'{where} raised {o.exc!r} (id and name are free again)')
        if int(B.id) != ra.id or str(B.name) != ra.name:
            self.fail('C05.explicit_id', f'{where}: the asset got id {B.id} name {str(B.name)!r}')
        self.obj[hb] = B
        self.owner[hb] = mi
        ref.add_asset(RefAsset(hb, ra.type, ra.name, ra.defenses, {}), ra.id, ra.name)
        self.check_model(mi, where=where)
        # the removed object is added again: an asset like any other that is not in the model
        where += '; add_asset(<the removed object>)'
        ids, names = ref.live_ids(), ref.live_names()
        o = call(model.add_asset, A)
        self.count('fault:removed_asset_added_again_while_a_twin_is_live')
        if o.raised:
            self.fail('C05.must_not_raise', f'{where} raised {o.exc!r}')
        aid = call(lambda: int(A.id))
        if aid.raised or aid.value in ids or str(A.name) in names:
            self.fail('C05.unique', f'{where}: the asset got id {A.id!r} name {str(A.name)!r}; '
                                    f'live ids {sorted(ids)}, names {sorted(names)}')
        self.obj[ha] = A
        self.owner[ha] = mi
        del self.obj[h]         # one object, one handle: the record of its first life is closed
        ref.add_asset(RefAsset(ha, ra.type, str(A.name), ra.defenses, ra.extras), aid.value, str(A.name))
        self.state_changes += 1
        self.check_model(mi, where=where)
        return 'ok'

    # -- associations
    def do_add_assoc(self, op, mi, model, ref):
        h = op['h']
        if h in self.obj:
            raise Unresolvable()
        info = self.L.assoc_by_cls.get(op['cls'])
        if info is None:
            raise Unresolvable()
        left, right = op['left'], op['right']
        nonmember = False
        for x in left + right:
            ra = ref.assets.get(x)
            if ra is None or x not in self.obj:
                raise Unresolvable()
            if not ra.live:
                if not self._stale_ok(ref, x):
                    raise Unresolvable()
                nonmember = True
        if not left or not right:
            raise Unresolvable()
        problem = ref.association_problem(info.cls, left, right)
        if nonmember:
            problem = problem or 'nonmember'
        cls = self._cls(info.cls)

        def build():
            s = cls()
            if op.get('how') == 'append':
                for f, hs in ((info.lf, left), (info.rf, right)):
                    setattr(s, f, [self.obj[hs[0]]])
                    for x in hs[1:]:
                        getattr(s, f).append(self.obj[x])
            else:
                setattr(s, info.lf, [self.obj[x] for x in left])
                setattr(s, info.rf, [self.obj[x] for x in right])
            return s
        names = lambda hs: [ref.assets[x].name for x in hs]     # noqa: E731
        where = f'add_association {info.cls}({info.lf}={names(left)}, {info.rf}={names(right)})'
        if op.get('how') == 'append':
            where += ' [members appended to the fields]'
        from .world import time_limit, SlowRefusal
        slow_kind = bool(problem) and problem.split(':')[0] in ('max', 'type')

        def lim(fn, *a):
            # refusals of these two kinds come with an error message that can take minutes
            # to format in a densely linked model (see world.time_limit)
            if not slow_kind:
                return fn(*a)
            with time_limit(4.0):
                return fn(*a)
        o = call(lim, build)
        if not o.raised:
            s = o.value
            if op.get('peek'):
                for f in (info.lf, info.rf):
                    call(lim, lambda f=f: len(list(getattr(s, f))))      # a look at the field
            o = call(lim, model.add_association, s)
            if o.raised and op.get('attempts', 1) > 1 and not isinstance(o.exc, SlowRefusal):
                # refused: the caller tries the very same call again
                self.count('fault:refused_add_association_retried')
                o = call(lim, model.add_association, s)
                where += ' [second attempt with the same object]'
        if o.raised and isinstance(o.exc, SlowRefusal):
            self.count('probe:slow_refusal_cut_short')
        if problem:
            self.count('fault:rejected_assoc_' + problem.split(':')[0])
            if problem == 'nonmember':
                # not one of C06's cases: an asset that is not part of the model. Whatever
                # happens, the model must not end up referring to it, and a raise is atomic
                if not o.raised:
                    self.fail('C05.associations', f'{where} was accepted although an asset in it '
                                                  f'is not part of the model')
                self.check_model(mi, raised=True, where=where + ' [asset not in the model]')
                return 'rejected'
            self.count('oracle:C06.rejected')
            if not o.raised:
                if 'C06' in self.armed:
                    raise Violation('C06.rejected', f'{where} was accepted although: {problem}')
                raise SetupRejected('desync:C06.rejected')
            self.key_events += self.prop == 'C06'
            self.check_model(mi, raised=True, where=where + f' [{problem}]')
            return 'rejected'
        if o.raised:
            self.fail('C05.must_not_raise', f'{where} raised {o.exc!r}')
        self.obj[h] = s
        self.owner[h] = mi
        rs = RefAssoc(h, info.cls, left, right)
        ref.add_assoc(rs)
        if any(x in right for x in left):
            self.count('probe:self_link_added')
        if len(left) > 1 or len(right) > 1:
            self.count('probe:multi_member_association')
        if info.name in self.L.dup_names:
            self.count('probe:duplicate_named_association_class_used')
        if ref.assets[left[0]].type != info.lt or ref.assets[right[0]].type != info.rt:
            self.count('probe:subtype_member')
        self.state_changes += 1
        self.check_model(mi, where=where)
        return 'ok'

    def do_remove_assoc(self, op, mi, model, ref):
        h = op['h']
        s = self.resolve(h)
        rs = ref.assocs.get(h)
        if rs is None or self.owner.get(h) != mi:
            raise Unresolvable()
        where = f'remove_association({rs.cls})'
        if not rs.live and not self._stale_assoc_ok(ref, h):
            raise Unresolvable()
        o = call(model.remove_association, s)
        if not rs.live:
            self.count('fault:rejected_remove_nonmember')
            self.check_model(mi, raised=o.raised, where=where + ' [not in model]')
            return 'rejected' if o.raised else 'noop'
        if o.raised:
            self.fail('C05.must_not_raise', f'{where} raised {o.exc!r}')
        ref.remove_assoc(h)
        self.state_changes += 1
        self.check_model(mi, where=where)
        return 'ok'

    def do_remove_from_assoc(self, op, mi, model, ref):
        ha, hs = op['asset'], op['assoc']
        asset, s = self.resolve(ha), self.resolve(hs)
        ra, rs = ref.assets.get(ha), ref.assocs.get(hs)
        if ra is None or rs is None or not ra.live or not rs.live:
            raise Unresolvable()
        where = f'remove_asset_from_association({ra.name!r}, {rs.cls})'
        member = ha in rs.left or ha in rs.right
        o = call(model.remove_asset_from_association, asset, s)
        if not member:
            self.count('fault:rejected_remove_nonmember')
            self.check_model(mi, raised=o.raised, where=where + ' [not a member]')
            return 'rejected' if o.raised else 'noop'
        if o.raised:
            self.fail('C05.must_not_raise', f'{where} raised {o.exc!r}')
        if (ha in rs.left and len(rs.left) > 1) or (ha in rs.right and len(rs.right) > 1):
            self.count('probe:removed_from_multi_member_field')
        ref.remove_asset_from_assoc(ha, hs)
        self.state_changes += 1
        self.removed_since = True
        self.check_model(mi, where=where)
        return 'ok'

    # -- attackers
    def do_add_attacker(self, op, mi, model, ref):
        h = op['h']
        if h in self.obj:
            raise Unresolvable()
        name, kid = op.get('name'), op.get('id')
        at = self.AttackerAttachment() if name is None else self.AttackerAttachment(name=name)
        kw = {} if kid is None else {'attacker_id': kid}
        o = call(model.add_attacker, at, **kw)
        where = f'add_attacker(name={name!r}, id={kid!r})'
        in_use = kid is not None and kid in {ref.attackers[k].id for k in ref.attacker_order}
        bad_type = kid is not None and (not isinstance(kid, int) or isinstance(kid, bool))
        if in_use and not o.raised:
            # accepted, as the repository's own test demands ("can be duplicate id"): the
            # model now holds two attackers under one id.  Attackers are written by id.
            self.count('probe:two_attackers_under_one_id')
            d = call(model._to_dict)
            n_written = len(d.value.get('attackers', {})) if not d.raised else -1
            if n_written != len(model.attackers):
                self.fail('C07.roundtrip', f'{where} was accepted; the model holds '
                          f'{len(model.attackers)} attackers, its serialised form {n_written}: '
                          f'one of the two attackers under id {kid} is lost on save')
            raise SetupRejected('desync:C05.attackers')   # no reference for such a model
        if in_use or bad_type:
            self.count('fault:rejected_attacker_id_' + ('in_use' if in_use else 'not_an_integer'))
            if not o.raised:
                # an id that is not an integer poisons next_id (assets need integers)
                self.fail('C05.attackers', f'{where} was accepted although the id is not an integer')
            self.check_model(mi, where=where + ' [refused]')
            return 'rejected'
        if o.raised:
            self.fail('C05.must_not_raise', f'{where} raised {o.exc!r}')
        self.obj[h] = at
        self.owner[h] = mi
        if kid is not None and at.id != kid:
            self.fail('C05.explicit_id', f'{where}: attacker got id {at.id}')
        if not isinstance(at.id, int):
            self.fail('C05.attackers', f'{where}: attacker id {at.id!r} is not an int')
        if at.id in {ref.attackers[k].id for k in ref.attacker_order}:
            self.fail('C05.unique', f'{where}: attacker id {at.id} used twice')
        exp_name = name if name else at.name     # the default name is not promised: adopted
        if not isinstance(exp_name, str) or not exp_name:
            self.fail('C05.attackers', f'{where}: attacker has no name ({at.name!r})')
        rk = RefAttacker(h, exp_name)
        ref.add_attacker(rk, at.id, exp_name)
        self.state_changes += 1
        self.check_model(mi, where=where)
        return 'ok'

    def do_remove_attacker(self, op, mi, model, ref):
        h = op['h']
        at = self.resolve(h)
        rk = ref.attackers.get(h)
        if rk is None or not rk.live or self.owner.get(h) != mi:
            raise Unresolvable()
        o = call(model.remove_attacker, at)
        where = f'remove_attacker({rk.name!r})'
        if o.raised:
            self.fail('C05.must_not_raise', f'{where} raised {o.exc!r}')
        ref.remove_attacker(h)
        self.recent_removed_attackers[mi].append(rk.id)
        self.state_changes += 1
        self.check_model(mi, where=where)
        return 'ok'

    def do_add_ep(self, op, mi, model, ref):
        at, asset = self.resolve(op['k']), self.resolve(op['asset'])
        rk, ra = ref.attackers.get(op['k']), ref.assets.get(op['asset'])
        if rk is None or ra is None or not rk.live or not ra.live:
            raise Unresolvable()
        o = call(at.add_entry_point, asset, op['step'])
        where = f'add_entry_point({rk.name!r}, {ra.name!r}, {op["step"]})'
        if o.raised:
            self.fail('C05.must_not_raise', f'{where} raised {o.exc!r}')
        ref.add_entry_point(op['k'], op['asset'], op['step'])
        self.state_changes += 1
        self.check_model(mi, where=where)
        return 'ok'

    def do_remove_ep(self, op, mi, model, ref):
        at, asset = self.resolve(op['k']), self.resolve(op['asset'])
        rk, ra = ref.attackers.get(op['k']), ref.assets.get(op['asset'])
        if rk is None or ra is None or not rk.live or not ra.live:
            raise Unresolvable()
        o = call(at.remove_entry_point, asset, op['step'])
        where = f'remove_entry_point({rk.name!r}, {ra.name!r}, {op["step"]})'
        if o.raised:
            self.fail('C05.must_not_raise', f'{where} raised {o.exc!r}')
        ref.remove_entry_point(op['k'], op['asset'], op['step'])
        self.state_changes += 1
        self.check_model(mi, where=where)
        return 'ok'

    # -- extras
    def do_set_extras(self, op, mi, model, ref):
        h = op['h']
        asset = self.resolve(h)
        ra = ref.assets.get(h)
        if ra is None or not ra.live:
            raise Unresolvable()
        o = call(setattr, asset, 'extras', copy.deepcopy(op['extras']))
        where = f'{ra.name!r}.extras = {op["extras"]}'
        if o.raised:
            self.fail('C05.must_not_raise', f'{where} raised {o.exc!r}')
        ra.extras = copy.deepcopy(op['extras'])
        self.state_changes += 1
        self.check_model(mi, where=where)
        return 'ok'

    def do_set_assoc_extras(self, op, mi, model, ref):
        h = op['h']
        s = self.resolve(h)
        rs = ref.assocs.get(h)
        if rs is None or not rs.live:
            raise Unresolvable()
        o = call(setattr, s, 'extras', copy.deepcopy(op['extras']))
        where = f'{rs.cls}.extras = {op["extras"]}'
        if o.raised:
            self.fail('C05.must_not_raise', f'{where} raised {o.exc!r}')
        rs.extras = copy.deepcopy(op['extras'])
        if op['extras']:
            self.count('probe:association_extras_set')
        self.state_changes += 1
        self.check_model(mi, where=where)
        return 'ok'

    # -- restart (C07)
    def _parse_file(self, path, fmt):
        import yaml
        with open(path, 'r', encoding='utf-8') as f:
            text = f.read()
        if fmt == 'json':
            return json.loads(text)
        return yaml.safe_load(text)

    def _file_view(self, parsed):
        """Parsed model file -> the normalised _to_dict view."""
        return normalise_to_dict(parsed, self.L)

    def _new_factory(self, how):
        if how == 'lang':
            self.spec = copy.deepcopy(self.desc['spec'])
            o = call(self.LanguageGraph, self.spec)
            if o.raised:
                raise SetupRejected('langgraph:' + o.exc_name())
            self.lg = o.value
        if how in ('lang', 'factory'):
            o = call(self.LanguageClassesFactory, self.lg)
            if o.raised:
                raise SetupRejected('factory:' + o.exc_name())
            self.factory = o.value

    def _rebind(self, mi, new_model):
        """Bind the handles of live reference objects to the loaded objects and
        forget every other object of that model (a restart keeps only the file)."""
        ref = self.refs[mi]
        for h in [h for h, m in self.owner.items() if m == mi]:
            self.obj.pop(h, None)
        by_id = {int(a.id): a for a in new_model.assets}
        for h in ref.order:
            self.obj[h] = by_id[ref.assets[h].id]
        # dead handles stay known to the reference but have no object any more
        pool = list(new_model.associations)
        for sh in ref.assoc_order:
            rs = ref.assocs[sh]
            info = self.L.assoc_by_cls[rs.cls]
            want = (rs.cls, sorted(ref.assets[x].id for x in rs.left),
                    sorted(ref.assets[x].id for x in rs.right))
            for s in pool:
                got = (type(s).__name__, sorted(int(x.id) for x in getattr(s, info.lf)),
                       sorted(int(x.id) for x in getattr(s, info.rf))) \
                    if type(s).__name__ == rs.cls else None
                if got == want:
                    self.obj[sh] = s
                    pool.remove(s) if False else pool.pop(next(i for i, y in enumerate(pool) if y is s))
                    break
        att = {a.id: a for a in new_model.attackers}
        for k in ref.attacker_order:
            self.obj[k] = att[ref.attackers[k].id]
        for h in list(ref.order) + list(ref.assoc_order) + list(ref.attacker_order):
            self.owner[h] = mi
        self.models[mi] = new_model
        self.freed_ids[mi] = []
        self.freed_names[mi] = []

    def _roundtrip_check(self, mi, new_model, clause, where):
        ref = self.refs[mi]
        self.count('oracle:' + clause)
        o = call(observe_model, new_model, self.L)
        if o.raised:
            self.fail(clause, f'{where}: observing the loaded model raised {o.exc!r}')
        got, exp = normalise_obs(o.value), normalise_obs(ref.observe())
        if got != exp:
            self.fail(clause, f'{where}: loaded model differs from the model that was saved\n'
                      + _obs_diff(exp, got))
        for a in new_model.assets:
            if not isinstance(a, getattr(self.factory.ns, str(a.type))):
                self.fail(clause, f'{where}: loaded asset {str(a.name)!r} is not an instance of '
                                  f'the current factory class {str(a.type)}')

    def do_restart(self, op, mi, model, ref):
        import maltoolbox.file_utils as fu
        fmt, how = op['fmt'], op.get('how', 'model')
        if how in ('factory', 'lang') and len(self.models) > 1:
            how = 'model'
        ext = '.' + fmt
        same_ext = [p for p in self.paths_used if p.endswith(ext)]
        if op.get('reuse') and same_ext:
            path = same_ext[0]
            if os.path.exists(path):
                self.count('probe:path_reused')
        else:
            path = self.fresh_path(ext)
        fault = op.get('fault')
        where = f'save_to_file(*{ext}) + load [{how}]'
        # ---- save
        plan = None
        if fault and fault['phase'] == 'save':
            plan = faults.FaultPlan(fault['kind'], fault['at'], fault.get('after', 0), 'w')
        old_size = os.path.getsize(path) if os.path.exists(path) else 0
        if op.get('share_steps') and not fault:
            # the caller built two entry points from one list of steps: the attacker holds
            # the same list object twice (same content as before; a YAML writer turns that
            # into an anchor and an alias)
            for at in model.attackers:
                eps = list(at.entry_points)
                for j in range(1, len(eps)):
                    for i in range(j):
                        if list(eps[i][1]) == list(eps[j][1]) and eps[i][1] is not eps[j][1]:
                            eps[j] = (eps[j][0], eps[i][1])
                            self.count('probe:one_step_list_shared_by_two_entry_points')
                            break
                at.entry_points = eps
        with faults.patched_open([fu], plan):
            o = call(model.save_to_file, path)
        if plan is not None and plan.fired:
            self.count(f'fault:storage_{fault["kind"]}_{fault["at"]}')
            self.count('oracle:C07.no_silent_failure')
            if not o.raised:
                self.fail('C07.no_silent_failure',
                          f'save_to_file returned normally although {fault["kind"]} was raised '
                          f'at {fault["at"]}')
            # the file is whatever it is; the model in memory must be untouched
            self.check_model(mi, raised=True, where=where + ' [storage fault]')
            if os.path.exists(path):
                os.remove(path)
            return 'save_failed'
        if o.raised:
            self.fail('C07.save', f'save_to_file(*{ext}) raised {o.exc!r}')
        self.paths_used.append(path)
        size = os.path.getsize(path)
        if old_size > size:
            self.count('probe:overwrote_longer_file')
        p = call(self._parse_file, path, fmt)
        if p.raised:
            self.fail('C07.file', f'the file written by save_to_file(*{ext}) does not parse: {p.exc!r}')
        fv = call(self._file_view, p.value)
        self.count('oracle:C07.file')
        if fv.raised or fv.value != normalise_ref_to_dict(ref.to_dict_view(), self.L):
            self.fail('C07.file', f'content of the saved {ext} file differs from the model\n'
                      + (repr(fv.exc) if fv.raised else
                         _obs_diff(normalise_ref_to_dict(ref.to_dict_view(), self.L), fv.value)))
        # ---- drop everything, load
        if how == 'process':
            self._process_restart(mi, path, op.get('hashseed', 1), where)
            how = 'model'
        self._new_factory(how)
        plan = None
        if fault and fault['phase'] == 'load':
            plan = faults.FaultPlan(fault['kind'], fault['at'], 0, 'r')
        with faults.patched_open([fu], plan):
            o = call(self.Model.load_from_file, path, self.factory)
        if plan is not None and plan.fired:
            self.count(f'fault:storage_{fault["kind"]}_{fault["at"]}_load')
            self.count('oracle:C07.no_silent_failure')
            if not o.raised:
                self.fail('C07.no_silent_failure',
                          f'load_from_file returned a model although EIO was raised at {fault["at"]}')
            with faults.patched_open([fu], None):
                o = call(self.Model.load_from_file, path, self.factory)   # retry, faults stopped
        if o.raised:
            self.fail('C07.roundtrip', f'load_from_file(*{ext}) raised {o.exc!r} on a file written '
                                       f'by save_to_file')
        new_model = o.value
        self._roundtrip_check(mi, new_model, 'C07.roundtrip', where)
        # ---- saving the loaded model reproduces the content
        path2 = self.fresh_path(ext)
        o = call(new_model.save_to_file, path2)
        self.count('oracle:C07.resave')
        if o.raised:
            self.fail('C07.resave', f'saving the loaded model raised {o.exc!r}')
        p2 = call(self._parse_file, path2, fmt)
        if p2.raised or canon(_strip_meta(p2.value)) != canon(_strip_meta(p.value)):
            self.fail('C07.resave', f'saving the loaded model does not reproduce the file content\n'
                      + ('' if p2.raised else _obs_diff(_strip_meta(p.value), _strip_meta(p2.value))))
        os.remove(path2)
        self.old_files = [f for f in self.old_files if f[1] != path]
        self.old_files.append(('native', path, self._c18_expected(ref), None))
        self._rebind(mi, new_model)
        self.restarts += 1
        self.key_events += self.prop == 'C07'
        self.count(f'probe:restart_{fmt}')
        self.count(f'probe:restart_how_{how}')
        if any(ref.assets[h].id == 0 for h in ref.order[1:]):
            self.count('probe:restart_with_id0_not_first')
        if len(ref.attacker_order) > 1:
            self.count('probe:restart_with_several_attackers')
        ids = sorted(ref.live_ids())
        if ids and ids != list(range(ids[0], ids[0] + len(ids))):
            self.count('probe:restart_with_id_gaps')
        self.check_model(mi, where=where)
        return 'ok'

    def _process_restart(self, mi, path, hashseed, where):
        """Load the file in a fresh interpreter under another hash seed and
        compare what it sees with the reference."""
        import subprocess
        import sys
        specp = self.fresh_path('.spec.json')
        with open(specp, 'w') as f:
            json.dump(self.desc['spec'], f)
        envv = dict(os.environ)
        envv['PYTHONHASHSEED'] = str(hashseed)
        from . import env as _env
        pr = subprocess.run([sys.executable, '-m', 'sim.child', 'load_model', specp, path],
                            cwd=_env.VERIF_DIR, env=envv, capture_output=True, text=True,
                            timeout=120)
        line = next((ln for ln in pr.stdout.splitlines() if ln.startswith('CHILD ')), None)
        if line is None:
            from .engine import HarnessError
            raise HarnessError(f'child interpreter gave no result: {pr.stdout[-300:]} {pr.stderr[-1500:]}')
        res = json.loads(line[6:])
        self.count('probe:fresh_interpreter_restart')
        self.count('oracle:C07.roundtrip')
        if res.get('error'):
            self.fail('C07.roundtrip', f'{where}: a fresh interpreter (PYTHONHASHSEED={hashseed}) '
                                       f'failed to load the file: {res["error"]}')
        exp = json.loads(canon(normalise_obs(self.refs[mi].observe())))
        if res['obs'] != exp:
            self.fail('C07.roundtrip', f'{where}: a fresh interpreter (PYTHONHASHSEED={hashseed}) '
                                       f'loads a different model\n' + _obs_diff(exp, res['obs']))

    # -- foreign-written native file (C07)
    def do_foreign(self, op, mi, model, ref):
        import yaml
        fmt = op['fmt']
        ext = '.' + fmt
        order = [i for i in op.get('order', []) if i in ref.live_ids()]
        order += [ref.assets[h].id for h in ref.order if ref.assets[h].id not in order]
        key = (lambda i: str(i)) if (op.get('str_keys') or fmt == 'json') else (lambda i: i)
        view = ref.to_dict_view()
        assets = {}
        used_shorthand = False
        for i in order:
            d = copy.deepcopy(view['assets'][i])
            if op.get('shorthand') and set(d) == {'name', 'type'} and \
                    d['name'] == f"{d['type']}:{key(i)}":
                assets[key(i)] = d['type']
                used_shorthand = True
            else:
                assets[key(i)] = d
        assocs = []
        for e in copy.deepcopy(view['associations']):
            if 'extras' in e:
                if self.guard('association_extras'):
                    e.pop('extras')
            if op.get('extras_first') and 'extras' in e:
                e = {'extras': e['extras'], **{k: v for k, v in e.items() if k != 'extras'}}
                self.count('probe:foreign_extras_listed_first')
            if op.get('scalar_targets'):
                for k, v in e.items():
                    if k != 'extras':
                        for f, ids in v.items():
                            if len(ids) == 1:
                                v[f] = ids[0]
            assocs.append(e)
        if op.get('invalid') == 'dup_link' and assocs:
            e0 = copy.deepcopy(assocs[op.get('k', 0) % len(assocs)])
            t = next(k for k in e0 if k != 'extras')
            extra = {t: {f: (v if not isinstance(v, list) else v[:1]) for f, v in e0[t].items()}}
            assocs.append(extra)
        attackers = {}
        for aid, a in view['attackers'].items():
            attackers[key(aid)] = {'name': a['name'], 'entry_points': {
                key(x): copy.deepcopy(e) for x, e in a['entry_points'].items()}}
        doc = {'metadata': {'name': ref.name, 'langVersion': self.spec['defines']['version'],
                            'langID': self.spec['defines']['id'],
                            'info': 'written by hand'},
               'assets': assets, 'associations': assocs, 'attackers': attackers}
        path = self.fresh_path(ext)
        with open(path, 'w', encoding='utf-8') as f:
            if fmt == 'json':
                json.dump(doc, f, indent=2)
            else:
                yaml.safe_dump(doc, f, sort_keys=False, allow_unicode=False)
        where = f'load of a hand-written {ext} file (asset order {order}, ' \
                f'shorthand={used_shorthand})'
        o = call(self.Model.load_from_file, path, self.factory)
        if op.get('invalid') == 'dup_link' and assocs:
            self.count('fault:file_that_lists_one_link_twice')
            self.count('oracle:C06.rejected')
            if not o.raised:
                self.fail('C06.rejected', f'{where}: the file lists the link {extra} twice and was '
                                          f'loaded; the model holds {len(o.value.associations)} associations')
            self.key_events += self.prop == 'C06'
            return 'rejected'
        self.count('oracle:C07.foreign_file')
        if o.raised:
            self.fail('C07.foreign_file', f'{where} raised {o.exc!r}')
        self._roundtrip_check(mi, o.value, 'C07.foreign_file', where)
        self._rebind(mi, o.value)
        self.restarts += 1
        self.key_events += self.prop == 'C07'
        self.count('probe:foreign_file_loaded')
        if used_shorthand:
            self.count('probe:foreign_shorthand_used')
        if order and 0 in order[1:]:
            self.count('probe:foreign_id0_not_first')
        if order != sorted(order):
            self.count('probe:foreign_permuted_order')
        self.check_model(mi, where=where)
        return 'ok'

    # -- legacy formats (C18)
    @staticmethod
    def _c18_view(todict, L=None):
        """Model._to_dict() -> what C18 compares."""
        assets = {}
        for k, v in todict['assets'].items():
            v = _plain(v)
            assets[int(k)] = {'name': v['name'], 'type': v['type'],
                              'defenses': _fill_defenses(v, L)['defenses']}
        links = set()
        for e in todict['associations']:
            for cls, fields in e.items():
                if cls == 'extras':
                    continue
                (f1, m1), (f2, m2) = list(fields.items())
                for a in m1:
                    for b in m2:
                        links.add((cls, f1, int(a), f2, int(b)))
        eps = set()
        for k, v in todict['attackers'].items():
            for a, e in v['entry_points'].items():
                for st in e['attack_steps']:
                    eps.add((int(k), int(a), st))
        return {'assets': assets, 'links': sorted(links), 'entry_points': sorted(eps),
                'attackers': sorted(int(k) for k in todict['attackers'])}

    def _c18_expected(self, ref):
        assets = {}
        for h in ref.order:
            a = ref.assets[h]
            defaults = self.L.defenses(a.type)
            assets[a.id] = {'name': a.name, 'type': a.type, 'defenses': dict(a.defenses)}
        links = set()
        for cls, l, r in legacy.pairwise_links(ref):
            info = self.L.assoc_by_cls[cls]
            links.add((cls, info.lf, ref.assets[l].id, info.rf, ref.assets[r].id))
        eps = set()
        for k in ref.attacker_order:
            at = ref.attackers[k]
            for h, steps in at.eps:
                for st in steps:
                    eps.add((at.id, ref.assets[h].id, st))
        return {'assets': assets, 'links': sorted(links), 'entry_points': sorted(eps),
                'attackers': sorted(ref.attackers[k].id for k in ref.attacker_order)}

    def do_legacy(self, op, mi, model, ref):
        from maltoolbox.translators import updater, securicad
        # what the legacy formats cannot express is dropped from the reference first
        for h in ref.order:
            ref.assets[h].extras = {}
        for sh in ref.assoc_order:
            ref.assocs[sh].extras = {}
        if op['kind'] == 'scad':
            path = self.fresh_path('.sCAD')
            legacy.write_scad(ref, self.L, path, op)
            # relative path: the loader names the model after the path it was given
            cwd = os.getcwd()
            os.chdir(self.dir)
            try:
                if op.get('read_fault'):
                    # the archive cannot be read: the loader must fail, not return a model
                    import types
                    import zipfile as _zip
                    state = {'n': 0}

                    def failing_zip(*a, **kw):
                        state['n'] += 1
                        raise OSError(errno.EIO, 'injected EIO while opening the archive')
                    shim = types.SimpleNamespace(ZipFile=failing_zip, BadZipFile=_zip.BadZipFile)
                    real_zip = securicad.zipfile
                    securicad.zipfile = shim
                    try:
                        f = call(securicad.load_model_from_scad_archive, os.path.basename(path),
                                 self.lg, self.factory)
                    finally:
                        securicad.zipfile = real_zip
                    if state['n']:
                        self.count('fault:storage_EIO_scad_archive')
                        self.count('oracle:C18.no_silent_failure')
                        if not f.raised:
                            self.fail('C18.no_silent_failure', 'load_model_from_scad_archive returned '
                                                               'although the archive could not be read')
                o = call(securicad.load_model_from_scad_archive, os.path.basename(path),
                         self.lg, self.factory)
            finally:
                os.chdir(cwd)
            where = 'load_model_from_scad_archive'
            # the archive has no attacker names and only pairwise links
            for k in ref.attacker_order:
                ref.attackers[k].name = f'Attacker:{ref.attackers[k].id}'
            pairs = legacy.pairwise_links(ref)
            for sh in list(ref.assoc_order):
                ref.remove_assoc(sh)
                self.obj.pop(sh, None)
            for cls, l, r in pairs:
                nh = self.new_handle('s')
                ref.add_assoc(RefAssoc(nh, cls, [l], [r]))
            ref.name = os.path.basename(path)
            self.count('probe:legacy_scad')
            if op.get('stale_entry'):
                self.count('probe:legacy_scad_with_superseded_entry')
            if any(op.get('flip', [])):
                self.count('probe:legacy_scad_flipped_orientation')
        else:
            path = self.fresh_path('.' + ('json' if op['fmt'] == 'json' else 'yml'))
            names = {}
            if op.get('dup_name') and len(ref.order) >= 2:
                # the file gives two assets one name: the one listed later is renamed on load
                # (name + ':' + id), exactly as a second add_asset with that name is
                forder = legacy.file_order_0_0_39(ref, op)
                i, j = sorted(x % len(forder) for x in op['dup_name'])
                if i != j:
                    by_id = {ref.assets[h].id: ref.assets[h] for h in ref.order}
                    shared = by_id[forder[i]].name
                    renamed = f'{shared}:{forder[j]}'
                    if renamed not in ref.live_names():
                        names[forder[j]] = shared
                        by_id[forder[j]].name = renamed
                        self.count('probe:legacy_file_with_one_name_twice')
                        if forder[j] < forder[i]:
                            self.count('probe:legacy_name_twice_and_ids_descending')
            legacy.write_0_0_39(ref, self.L, path, op, names)
            if op.get('read_fault'):
                plan = faults.FaultPlan('EIO', 'read', 0, 'r')
                with faults.patched_open([updater], plan):
                    f = call(updater.load_model_from_version_0_0_39, path, self.factory)
                if plan.fired:
                    self.count('fault:storage_EIO_legacy_read')
                    self.count('oracle:C18.no_silent_failure')
                    if not f.raised:
                        self.fail('C18.no_silent_failure', 'load_model_from_version_0_0_39 returned '
                                                           'a model although reading the file failed')
            o = call(updater.load_model_from_version_0_0_39, path, self.factory)
            where = f'load_model_from_version_0_0_39(*.{op["fmt"]})'
            self.count('probe:legacy_0_0_39')
        self.count('oracle:C18.equal')
        exp = self._c18_expected(ref)
        if len({e[:2] for e in exp['entry_points']}) < len(exp['entry_points']):
            self.count('probe:legacy_several_steps_on_one_asset')
        if any(self.L.assoc_by_cls[c].name in self.L.dup_names for c, *_ in exp['links']):
            self.count('probe:legacy_duplicate_named_association')
        if any(a['type'] not in (self.L.assoc_by_cls[c].lt, self.L.assoc_by_cls[c].rt)
               for c, _, l, _, r in exp['links'] for a in (exp['assets'][l], exp['assets'][r])):
            self.count('probe:legacy_subtype_member')
        if o.raised:
            self.fail('C18.equal', f'{where} raised {o.exc!r} on a model that the native format '
                                   f'holds: {len(exp["assets"])} assets, links {exp["links"][:4]}, '
                                   f'entry points {exp["entry_points"][:4]}')
        if o.value is None:
            self.fail('C18.equal', f'{where} returned None')
        new_model = o.value
        td = call(new_model._to_dict)
        if td.raised:
            self.fail('C18.equal', f'{where}: _to_dict() of the loaded model raised {td.exc!r}')
        got = self._c18_view(td.value, self.L)
        if got != exp:
            self.fail('C18.equal', f'{where}: loaded model differs from the equivalent native model\n'
                      + _obs_diff(exp, got))
        # ... and from what the native loader makes of the native file of the same model
        npath = self.fresh_path('.json')
        doc = {'metadata': {'name': ref.name}, 'assets': {}, 'associations': [], 'attackers': {}}
        view = ref.to_dict_view()
        doc['assets'] = {str(k): v for k, v in view['assets'].items()}
        doc['associations'] = view['associations']
        doc['attackers'] = {str(k): {'name': v['name'], 'entry_points': {
            str(a): e for a, e in v['entry_points'].items()}} for k, v in view['attackers'].items()}
        with open(npath, 'w') as f:
            json.dump(doc, f)
        n = call(self.Model.load_from_file, npath, self.factory)
        if not n.raised:
            nv = self._c18_view(n.value._to_dict(), self.L)
            if nv != got:
                self.fail('C18.equal', f'{where}: differs from the native loader on the equivalent '
                                       f'native file\n' + _obs_diff(nv, got))
        if op['kind'] == 'scad':
            ref.name = new_model.name       # how the loader names the model is not promised
        self.old_files.append((op['kind'], path, exp, op.get('fmt')))
        self._rebind(mi, new_model)
        self.restarts += 1
        self.key_events += self.prop == 'C18'
        self.check_model(mi, where=where)
        return 'ok'

    # -- Neo4j peer (C19)
    def _neo(self):
        from . import fakeneo
        if self.neo_server is None:
            self.neo_server = fakeneo.Server()
        return self.neo_server

    MODEL_NODE_KEYS = ('asset_id', 'name', 'type')
    GRAPH_NODE_KEYS = ('name', 'full_name', 'type', 'ttc', 'is_necessary', 'is_viable',
                       'compromised_by', 'defense_status')

    @classmethod
    def _db_canon(cls, d):
        def cn(n):
            # the properties the property names; further ones may be sent along
            keys = cls.GRAPH_NODE_KEYS if 'full_name' in n['props'] else cls.MODEL_NODE_KEYS
            return [n['labels'], sorted((k, str(v)) for k, v in n['props'].items() if k in keys)]
        nodes = sorted(canon(cn(n)) for n in d['nodes'])
        rels = sorted(canon([cn(d['nodes'][r['start']]), r['type'], cn(d['nodes'][r['end']])])
                      for r in d['rels'])
        return {'nodes': nodes, 'rels': rels}

    def _model_export(self, ref):
        def cn(a):
            return [[a.type], sorted([('asset_id', str(a.id)), ('name', a.name), ('type', a.type)])]
        nodes = sorted(canon(cn(ref.assets[h])) for h in ref.order)
        rels = []
        for cls, l, r in legacy.pairwise_links(ref):
            info = self.L.assoc_by_cls[cls]
            rels.append(canon([cn(ref.assets[l]), info.lf, cn(ref.assets[r])]))
            rels.append(canon([cn(ref.assets[r]), info.rf, cn(ref.assets[l])]))
        return {'nodes': nodes, 'rels': sorted(rels)}

    def _with_peer(self, fault, fn, *a, **kw):
        import maltoolbox.ingestors.neo4j as n4
        server = self._neo()
        server.fault = fault
        server.fired = []
        real = n4.Graph
        n4.Graph = server.graph_class()
        try:
            return call(fn, *a, **kw)
        finally:
            n4.Graph = real
            server.fault = None

    def _check_db(self, db, clause, where):
        server = self._neo()
        got = self._db_canon(server.db(('bolt://sim', f'db{db}')))
        exp = self.neo_expected.get(db, {'nodes': [], 'rels': []})
        self.count('oracle:' + clause)
        if got['nodes'] != exp['nodes'] or got['rels'] != exp['rels']:
            self.fail(clause, f'{where}: content of the database differs from what should have been '
                              f'sent\n' + _obs_diff({'nodes': exp['nodes'], 'rels': exp['rels']}, got))

    def do_neo_ingest(self, op, mi, model, ref):
        import maltoolbox.ingestors.neo4j as n4
        db = op.get('db', 0)
        fault = op.get('fault')
        if fault == 'delete' and not op.get('delete'):
            fault = None
        o = self._with_peer(fault, n4.ingest_model, model, 'bolt://sim', 'u', 'p', f'db{db}',
                            delete=bool(op.get('delete')))
        where = f'ingest_model(delete={bool(op.get("delete"))}, db{db})'
        fired = list(self._neo().fired)
        exp = self.neo_expected.setdefault(db, {'nodes': [], 'rels': [], 'single_model': None})
        if fired:
            self.count('fault:peer_' + fired[0])
            self.count('oracle:C19.no_partial_success')
            if not o.raised:
                self.fail('C19.no_partial_success', f'{where} returned normally although the peer '
                                                    f'failed at {fired[0]}')
            if fired[0] == 'commit' and op.get('delete'):
                exp.update(nodes=[], rels=[], single_model=None)    # delete_all went through
            self._check_db(db, 'C19.no_partial_success', where + f' [peer fault {fired[0]}]')
            return 'peer_failed'
        if o.raised:
            self.fail('C19.model_export', f'{where} raised {o.exc!r}')
        ex = self._model_export(ref)
        if op.get('delete'):
            exp.update(nodes=ex['nodes'], rels=ex['rels'], single_model=self._c18_expected(ref))
        else:
            was_empty = not exp['nodes'] and not exp['rels']
            exp.update(nodes=sorted(exp['nodes'] + ex['nodes']), rels=sorted(exp['rels'] + ex['rels']),
                       single_model=self._c18_expected(ref) if was_empty else None)
        self._check_db(db, 'C19.model_export', where)
        self.key_events += self.prop == 'C19'
        self.count('probe:model_ingested')
        if len(ex['rels']) and any(len(ref.assocs[sh].left) > 1 or len(ref.assocs[sh].right) > 1
                                   for sh in ref.assoc_order):
            self.count('probe:ingest_multi_member_association')
        return 'ok'

    def do_neo_import(self, op, mi, model, ref):
        import maltoolbox.ingestors.neo4j as n4
        db = op.get('db', 0)
        exp = self.neo_expected.get(db)
        if not exp or exp.get('single_model') is None:
            raise Unresolvable()
        self._neo().row_seed = op.get('row_seed', 0)
        o = self._with_peer(None, n4.get_model, 'bolt://sim', 'u', 'p', f'db{db}', self.lg, self.factory)
        where = f'get_model(db{db}) with row order {op.get("row_seed")}'
        if self._neo().unknown_query:
            from .engine import HarnessError
            raise HarnessError('get_model sent a query the stand-in does not know: '
                               + self._neo().unknown_query)
        self.count('oracle:C19.import')
        want = {'assets': {k: {'name': v['name'], 'type': v['type']}
                           for k, v in exp['single_model']['assets'].items()},
                'links': exp['single_model']['links']}
        if o.raised:
            self.fail('C19.import', f'{where} raised {o.exc!r}; the database holds '
                                    f'{len(want["assets"])} assets, links {want["links"][:4]}')
        if o.value is None:
            self.fail('C19.import', f'{where} returned None; the database holds '
                                    f'{len(want["assets"])} assets, links {want["links"][:4]}')
        td = call(o.value._to_dict)
        if td.raised:
            self.fail('C19.import', f'{where}: _to_dict() of the imported model raised {td.exc!r}')
        v = self._c18_view(td.value, self.L)
        got = {'assets': {k: {'name': a['name'], 'type': a['type']} for k, a in v['assets'].items()},
               'links': v['links']}
        if got != want:
            self.fail('C19.import', f'{where}: imported model differs from the exported one\n'
                      + _obs_diff(want, got))
        self.key_events += self.prop == 'C19'
        self.count('probe:model_imported')
        if any(l == r for _, _, l, _, r in want['links']):
            self.count('probe:import_with_self_link')
        pairs = {}
        for cls, _, l, _, r in want['links']:
            pairs.setdefault(frozenset((l, r)), set()).add(cls)
        if any(len(c) > 1 for c in pairs.values()):
            self.count('probe:import_two_associations_one_pair')
        return 'ok'

    def do_neo_ingest_graph(self, op, mi, model, ref):
        import maltoolbox.ingestors.neo4j as n4
        from maltoolbox.attackgraph import AttackGraph
        from maltoolbox.attackgraph.analyzers.apriori import calculate_viability_and_necessity
        db = op.get('db', 0)
        # (generation is C01/C02 territory and not judged here.  The step-expression
        # evaluator follows transitive expressions without a visited set: on a densely and
        # cyclically linked model it takes minutes before it gives up - cut short)
        from .world import time_limit

        def generate():
            with time_limit(6.0):
                return AttackGraph(self.lg, model)
        g = call(generate)
        if g.raised:
            self.count('out:graph_generation_failed_' + type(g.exc).__name__)
            return 'generation_failed'      # C01/C02 territory
        g = g.value
        if op.get('attach'):
            if call(g.attach_attackers).raised:
                return 'generation_failed'
        if op.get('analyse'):
            if call(calculate_viability_and_necessity, g).raised:
                return 'generation_failed'
            if op.get('prune'):
                from maltoolbox.attackgraph.analyzers.apriori import prune_unviable_and_unnecessary_nodes
                if call(prune_unviable_and_unnecessary_nodes, g).raised:
                    return 'generation_failed'
        # the graph that is ingested has a history: nodes were removed, ids have gaps
        for pos in op.get('remove') or []:
            if g.nodes:
                if call(g.remove_node, g.nodes[pos % len(g.nodes)]).raised:
                    return 'generation_failed'
        # ... and steps were added by hand: a second step with the name of an existing one
        # on the same asset (its own id, the same full name), reached from the same parents
        from maltoolbox.attackgraph import AttackGraphNode
        for pos in op.get('twins') or []:
            if g.nodes:
                n0 = g.nodes[pos % len(g.nodes)]
                twin = AttackGraphNode(type=n0.type, name=n0.name, asset=n0.asset,
                                       ttc=copy.deepcopy(n0.ttc), defense_status=n0.defense_status,
                                       existence_status=n0.existence_status)
                if call(g.add_node, twin).raised:
                    return 'generation_failed'
                for p_ in list(n0.parents)[:2]:
                    p_.children.append(twin)
                    twin.parents.append(p_)
                self.count('probe:ingested_graph_with_two_steps_of_one_full_name')
        ids = sorted(n.id for n in g.nodes)
        if ids and ids != list(range(len(ids))):
            self.count('probe:ingested_graph_with_id_gaps')
        fault = op.get('fault')
        if fault == 'delete' and not op.get('delete'):
            fault = None
        o = self._with_peer(fault, n4.ingest_attack_graph, g, 'bolt://sim', 'u', 'p', f'db{db}',
                            delete=bool(op.get('delete')))
        where = f'ingest_attack_graph(delete={bool(op.get("delete"))}, db{db})'
        fired = list(self._neo().fired)
        exp = self.neo_expected.setdefault(db, {'nodes': [], 'rels': [], 'single_model': None})
        if fired:
            self.count('fault:peer_' + fired[0])
            self.count('oracle:C19.no_partial_success')
            if not o.raised:
                self.fail('C19.no_partial_success', f'{where} returned normally although the peer '
                                                    f'failed at {fired[0]}')
            if fired[0] == 'commit' and op.get('delete'):
                exp.update(nodes=[], rels=[], single_model=None)
            self._check_db(db, 'C19.no_partial_success', where + f' [peer fault {fired[0]}]')
            return 'peer_failed'
        if o.raised:
            self.fail('C19.graph_export', f'{where} raised {o.exc!r}')

        def cn(n):
            props = {'name': n.name, 'full_name': n.full_name, 'type': n.type, 'ttc': str(n.ttc),
                     'is_necessary': str(n.is_necessary), 'is_viable': str(n.is_viable),
                     'compromised_by': str([a.name for a in n.compromised_by]),
                     'defense_status': str(n.defense_status) if n.defense_status is not None else 'N/A'}
            label = str(n.asset.name) if n.asset is not None else str(n.id)
            return [[label], sorted((k, str(v)) for k, v in props.items())]
        nodes = sorted(canon(cn(n)) for n in g.nodes)
        # "one relationship per edge": an edge listed twice in children is one edge
        # (two distinct steps may look alike - same asset, same name -: edges are told apart
        # by the node objects, not by what is sent for them)
        pairs = {(id(n), id(c)): (n, c) for n in g.nodes for c in n.children}
        rels = sorted(canon([cn(n), 'Relationship', cn(c)]) for n, c in pairs.values())
        if op.get('delete'):
            exp.update(nodes=nodes, rels=rels, single_model=None)
        else:
            exp.update(nodes=sorted(exp['nodes'] + nodes), rels=sorted(exp['rels'] + rels),
                       single_model=None)
        self._check_db(db, 'C19.graph_export', where)
        self.key_events += self.prop == 'C19'
        self.count('probe:attack_graph_ingested')
        return 'ok'

    def do_reload_old(self, op, mi, model, ref):
        """A file written earlier in the run is loaded once more, after the model that
        came out of it (or went into it) has been edited: it must still load to what
        it held when it was written (nothing cached, nothing shared with the first load)."""
        from maltoolbox.translators import updater, securicad
        if op['i'] >= len(self.old_files):
            raise Unresolvable()
        kind, path, exp, fmt = self.old_files[op['i']]
        if not os.path.exists(path):
            raise Unresolvable()
        if kind == 'native':
            o = call(self.Model.load_from_file, path, self.factory)
            clause = 'C07.roundtrip'
        elif kind == 'scad':
            cwd = os.getcwd()
            os.chdir(self.dir)
            try:
                o = call(securicad.load_model_from_scad_archive, os.path.basename(path),
                         self.lg, self.factory)
            finally:
                os.chdir(cwd)
            clause = 'C18.equal'
        else:
            o = call(updater.load_model_from_version_0_0_39, path, self.factory)
            clause = 'C18.equal'
        where = f'second load of a {kind} file written earlier in the run'
        self.count('oracle:' + clause)
        if o.raised or o.value is None:
            self.fail(clause, f'{where} failed: {o.exc!r}')
        got = self._c18_view(o.value._to_dict(), self.L)
        if got != exp:
            self.fail(clause, f'{where}: differs from what the file held when it was written\n'
                      + _obs_diff(exp, got))
        self.count('probe:old_file_loaded_again')
        return 'ok'


def _strip_meta(doc):
    d = copy.deepcopy(doc)
    if isinstance(d, dict):
        d.pop('metadata', None) if False else None
    return d


def _obs_diff(exp, got, limit=8):
    out = []

    def walk(a, b, path):
        if len(out) >= limit:
            return
        if isinstance(a, dict) and isinstance(b, dict):
            for k in sorted(set(a) | set(b), key=str):
                if k not in a:
                    out.append(f'  {path}/{k}: unexpected {canon(b[k])[:300]}')
                elif k not in b:
                    out.append(f'  {path}/{k}: missing, expected {canon(a[k])[:300]}')
                else:
                    walk(a[k], b[k], f'{path}/{k}')
        elif isinstance(a, list) and isinstance(b, list) and len(a) == len(b):
            for i, (x, y) in enumerate(zip(a, b)):
                walk(x, y, f'{path}[{i}]')
        elif a != b:
            out.append(f'  {path}: expected {canon(a)[:300]} got {canon(b)[:300]}')
    walk(exp, got, '')
    return '\n'.join(out)
