"""C09: see world_g.py"""
from .world_g import GraphWorld as World, RULE, REAL, STUB, ASSUMPTIONS, new_run_for  # noqa: F401


def new_run(rng, tier):
    return new_run_for('C09', rng, tier)
