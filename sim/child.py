"""Child interpreter entry points (fresh process, other PYTHONHASHSEED).

python -m sim.child load_model <spec.json> <model file>
Prints one line 'CHILD <json>'.
"""
import json
import sys


def main():
    from . import env
    env.enter_scratch()
    env.import_toolbox()
    cmd = sys.argv[1]
    out = {}
    try:
        if cmd == 'load_model':
            from .lang import Lang, canon
            from .world_m import observe_model, normalise_obs
            from maltoolbox.language import LanguageGraph, LanguageClassesFactory
            from maltoolbox.model import Model
            with open(sys.argv[2]) as f:
                spec = json.load(f)
            L = Lang(json.loads(json.dumps(spec)))
            lg = LanguageGraph(spec)
            fac = LanguageClassesFactory(lg)
            try:
                m = Model.load_from_file(sys.argv[3], fac)
                out['obs'] = json.loads(canon(normalise_obs(observe_model(m, L))))
            except Exception as e:      # noqa: BLE001
                out['error'] = repr(e)
        elif cmd == 'gen_graph':
            import os
            from .lang import canon
            import hashlib
            with open(sys.argv[2]) as f:
                job = json.load(f)
            os.makedirs(os.path.join(job['cwd'], 'tmp'), exist_ok=True)
            os.chdir(job['cwd'])
            if job.get('decoy_spec'):
                # history of this process: another revision of the language (same id and
                # version) is loaded and used first
                try:
                    from maltoolbox.language import LanguageGraph, LanguageClassesFactory
                    from maltoolbox.model import Model
                    from maltoolbox.attackgraph import AttackGraph
                    with open(job['decoy_spec']) as f:
                        dspec = json.load(f)
                    dlg = LanguageGraph(dspec)
                    dfac = LanguageClassesFactory(dlg)
                    dm = Model('decoy', dfac)
                    t = next(a['name'] for a in dspec['assets'] if not a.get('isAbstract'))
                    dm.add_asset(getattr(dfac.ns, t)(name='d1'))
                    AttackGraph(dlg, dm)
                except Exception:       # noqa: BLE001  the decoy is history, not the subject
                    pass
            try:
                if job['via'] == 'api':
                    from maltoolbox.language import LanguageGraph, LanguageClassesFactory
                    from maltoolbox.model import Model
                    from maltoolbox.attackgraph import AttackGraph
                    from maltoolbox.attackgraph.analyzers.apriori import calculate_viability_and_necessity
                    with open(job['spec']) as f:
                        spec = json.load(f)
                    lg = LanguageGraph(spec)
                    fac = LanguageClassesFactory(lg)
                    m = Model.load_from_file(job['model_file'], fac)
                    g = AttackGraph(lg, m)
                    g.attach_attackers()
                    calculate_viability_and_necessity(g)
                else:
                    import contextlib
                    import io
                    from maltoolbox.wrappers import create_attack_graph
                    with contextlib.redirect_stderr(io.StringIO()):
                        g = create_attack_graph(job['lang_file'], job['model_file'])
                out['digest'] = hashlib.sha256(canon(g._to_dict()).encode()).hexdigest()
                out['nodes'] = len(g.nodes)
            except BaseException as e:      # noqa: BLE001  (the wrapper may call sys.exit)
                out['error'] = repr(e)
        else:
            out['error'] = 'unknown command'
    except Exception as e:      # noqa: BLE001
        import traceback
        out = {'harness_error': traceback.format_exc()[-2000:]}
    print('CHILD ' + json.dumps(out), flush=True)


if __name__ == '__main__':
    main()
