"""In-process stand-in for py2neo.Graph (the external peer of the Neo4j
ingestor).  py2neo's Node / Relationship / Subgraph stay real.

The store survives for the lifetime of a `Server`; a `Graph` object is what
maltoolbox.ingestors.neo4j constructs per call.  Faults (decided by the
scheduler, armed per operation): connection refused, commit raises (nothing
stored), delete_all raises.  Rows of `run(...).data()` come back in a seeded
order - Cypher promises none.
"""
from __future__ import annotations

import random
import re

from py2neo import Node, Relationship


class PeerError(Exception):
    """What the driver raises when the peer misbehaves (stands for
    py2neo's ConnectionUnavailable / TransactionError)."""


class Server:
    def __init__(self):
        self.dbs = {}           # (uri, name) -> {'nodes': [...], 'rels': [...]}
        self.fault = None       # None | 'connect' | 'commit' | 'delete'
        self.fired = []
        self.row_seed = 0
        self.queries = []
        self.unknown_query = None

    def db(self, key):
        return self.dbs.setdefault(key, {'nodes': [], 'rels': []})

    def graph_class(self):
        server = self

        class Graph:
            def __init__(self, uri=None, user=None, password=None, name=None, **kw):
                if server.fault == 'connect':
                    server.fired.append('connect')
                    raise PeerError('injected: connection refused')
                self._key = (uri, name)

            def delete_all(self):
                if server.fault == 'delete':
                    server.fired.append('delete')
                    raise PeerError('injected: delete_all failed')
                d = server.db(self._key)
                d['nodes'], d['rels'] = [], []

            def begin(self):
                return _Tx()

            def commit(self, tx):
                if server.fault == 'commit':
                    server.fired.append('commit')
                    raise PeerError('injected: commit failed, nothing stored')
                d = server.db(self._key)
                for sub in tx.pending:          # atomically: all or nothing
                    index = {}
                    for n in sorted(sub.nodes, key=lambda n: (sorted(map(str, n.labels)),
                                                               sorted((k, str(v)) for k, v in dict(n).items()))):
                        index[id(n)] = len(d['nodes'])
                        d['nodes'].append({'labels': sorted(map(str, n.labels)), 'props': dict(n)})
                    rels = []
                    for r in sub.relationships:
                        rels.append({'start': index[id(r.start_node)], 'end': index[id(r.end_node)],
                                     'type': type(r).__name__, 'props': dict(r)})
                    rels.sort(key=lambda r: (r['start'], r['end'], r['type']))
                    d['rels'].extend(rels)

            def run(self, query, *a, **kw):
                return _Cursor(server, server.db(self._key), query)
        return Graph


class _Tx:
    def __init__(self):
        self.pending = []

    def create(self, subgraph):
        self.pending.append(subgraph)


def _norm(q):
    return re.sub(r'\s+', '', q).lower()


Q_NODES = _norm('MATCH (a) WHERE a.type IS NOT NULL RETURN DISTINCT a')
Q_RELS = _norm('MATCH (a)-[r1]->(b),(a)<-[r2]-(b) WHERE a.type IS NOT NULL RETURN DISTINCT a, r1, r2, b')


class _Cursor:
    def __init__(self, server, d, query):
        self.server, self.d, self.query = server, d, query
        server.queries.append(query)

    def data(self):
        q = _norm(self.query)
        d = self.d
        objs = [Node(*n['labels'], **n['props']) for n in d['nodes']]
        rows = []
        if q == Q_NODES:
            for i, n in enumerate(d['nodes']):
                if n['props'].get('type') is not None:
                    rows.append({'a': objs[i]})
        elif q == Q_RELS:
            for i1, r1 in enumerate(d['rels']):
                a, b = r1['start'], r1['end']
                if d['nodes'][a]['props'].get('type') is None:
                    continue
                for i2, r2 in enumerate(d['rels']):
                    if i2 == i1:
                        continue        # a relationship is matched once per pattern
                    if r2['start'] == b and r2['end'] == a:
                        rows.append({'a': objs[a],
                                     'r1': Relationship(objs[a], r1['type'], objs[b]),
                                     'r2': Relationship(objs[b], r2['type'], objs[a]),
                                     'b': objs[b]})
        else:
            self.server.unknown_query = self.query
            raise PeerError('the stand-in does not know this query: ' + self.query)
        random.Random(self.server.row_seed).shuffle(rows)
        return rows
