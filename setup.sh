#!/bin/bash
# Offline setup: nothing is built; verify that /venv can import what the checks need.
cd "$(dirname "$0")" || exit 2
mkdir -p evidence replays
/venv/bin/python - <<'PY'
import sys
sys.path.insert(0, '/verif')
import os, tempfile
d = tempfile.mkdtemp(prefix='mtbsetup-', dir='/dev/shm' if os.path.isdir('/dev/shm') else None)
os.chdir(d)
import antlr4, yaml, python_jsonschema_objects, py2neo   # noqa
from sim import env
env.import_toolbox()
print('setup ok: maltoolbox from', env.REPO)
import shutil
os.chdir('/')
shutil.rmtree(d, ignore_errors=True)
env.cleanup()
PY
